"""C02 - the encrypted file equals the documented format built from standard primitives."""
import concurrent.futures as cf, json, os
import wv
from props import c01
PID = "C02"


def run(tier, replay):
    res = wv.Result(PID, "exploration", tier)
    exe = c01.e2e_exe(2)
    if replay:
        events = json.load(open(replay))["replay"]["events"]
    else:
        jobs = []
        if tier == "quick":
            # boundary lengths for S=32: block and chunk edges over 1..4 chunks
            for T, rng_ in ((1, (0, 40, 8)), (2, (15, 17, 1)), (2, (31, 33, 1)), (4, (47, 49, 1)), (4, (63, 65, 1)), (3, (95, 97, 1)), (5, (110, 113, 1)), (16, (33, 33, 1)),
                             (1, (62, 66, 2)), (2, (94, 98, 2)), (3, (126, 130, 4))):    # a stream re-used for a later chunk
                jobs.append((exe, ["rt", T, rng_[0], rng_[1], rng_[2], "all", "twice"]))
        else:
            for T in (1, 2, 3, 4, 5, 16):
                jobs.append((exe, ["rt", T, 0, 113, 1, "rot", "twice"]))
            for T in (2, 4):
                jobs.append((exe, ["rt", T, 0, 113, 3, "all"]))
        # chunks of 256 blocks (4 KiB) and hash windows of 16 KiB: per-chunk arithmetic (counter advanced by a whole refill,
        # offsets beyond one byte) behaves differently from the 2-block chunks above; streams re-used for a later chunk
        exe256 = c01.e2e_exe(256, 256)
        mid = [(1, 2 * 4096 + 100, "all"), (2, 4 * 4096 + 5, "all")] if tier == "quick" else [(1, 2 * 4096 + 100, "all"), (2, 4 * 4096 + 5, "all"), (3, 6 * 4096, "rot"), (4, 5 * 4096 - 1, "rot")]
        for T, n, how in mid:
            jobs.append((exe256, ["rt", T, n, n, 1, how]))
        jobs += [(exe, ["ivclass", T]) for T in (1, 2)]      # seeds whose first IV ends in F9..FE / FF / FFFF (counter carries in the first blocks of every stream)
        with cf.ThreadPoolExecutor(8) as ex:
            parts = list(ex.map(lambda j: wv.record(res, PID + "/j%d" % j[0], [j[1]]), enumerate(jobs)))
        events = []
        for p in parts:
            for e in p:
                e["id"] = len(events); events.append(e)
    bad, st = wv.validate_trace("WencryTrace", events, name=PID + "/tlc", env={"FULL": "1"}, shards=14, timeout=3000)
    rts = [e for e in events if e["e"] == "rt"]
    keys = set((e["T"], e["n"], e["cm"], e["hm"]) for e in rts)
    res.cov.update({"evaluations": len(events), "distinct_nontrivial": len([k for k in keys if k[1] > 0]),
                    "rule": "every recorded encryption is recomputed BYTE FOR BYTE by TLC with spec/FileFormat.tla (magic, mode bytes, HMAC at 10 over [48,EOF), zero fill, chained SHA-1 IVs, PKCS#7, chunk j -> stream j mod T, SP 800-38A modes from iv[0][0..15] continued across a stream's chunks) with S=32 so that files of 33..113 bytes span 2-4 chunks and T in {1,2,3,4,5,16} covers fewer/equal/more streams than chunks; plus length formula, determinism (second run byte-identical), no untransformed block, input untouched. Distinct = (T, n, cmode, hmode); non-trivial = non-empty plaintext.",
                    "traces_validated_against_impl": len(rts), "validator_states": st["states"], "exhaustive": False})
    for e in rts[:: max(1, len(rts) // 3)][:3]:
        res.sample(wv.shorten(e, 16))
    for e, why in bad:
        res.violation("encryption S=%s T=%s n=%s cm=%s hm=%s: %s" % (e.get("S"), e.get("T"), e.get("n"), e.get("cm"), e.get("hm"), why[:300]), {"events": [e]})
    res.assumptions += ["contents/keys/seeds sampled", "TLC and the executable transcriptions of FIPS-197, SP 800-38A, FIPS 180-4, RFC 1321, RFC 2104 (Kat.tla anchors)"]
    return res.finish()
