"""./check selftest [--only name,..] [--list]: demonstration that the specification is bound to the code.
A fixed list of seeded mutations is applied to SCRATCH COPIES of /repo (outside /repo and /verif, removed
afterwards); each must turn its owning check red (exit 1 with a VIOLATION line, or exit 2 for a deleted
hook), and the unmodified copy must stay green.  Negative-control TLC configurations are part of every
property check already (wv.design_runs) and fail the check when they do not fail in TLC."""
import concurrent.futures as cf, os, shutil, subprocess, sys, tempfile, time
import wv

# (name, owning checks, file, old text, new text, expected exit status)
MUT = [
    ("revert-D2-gate", ["C14", "C03", "C04"], "kernel/multi_aes/multicry.cpp", "  iobuffer->wait_buffer_ready(id);\n", "", 1),
    ("drop-notify-ready", ["C04"], "kernel/multi_aes/multi_buffergroup.cpp", "  cv_ready.notify_all();\n", "", 1),
    ("set_update-without-READY-test", ["C04"], "kernel/multi_aes/multi_buffergroup.cpp", "  if (state == READY)\n  {\n    state = UPDATING;", "  {\n    state = UPDATING;", 1),
    ("if-for-while-in-wait_update", ["C14", "C03"], "kernel/multi_aes/multi_buffergroup.cpp", "  while (state != UPDATING && state != EMPTY)\n", "  if (state != UPDATING && state != EMPTY)\n", 1),
    ("state-written-outside-lock", ["C14", "C03", "C04"], "kernel/multi_aes/multi_buffergroup.cpp",
     "void bufferctrl::set_update()\n{\n  std::unique_lock<std::mutex> locker(lock);\n  WV_POINT(\"su\", -1);\n  if (state == READY)\n  {\n    state = UPDATING;\n    cv_update.notify_all();\n  }\n  locker.unlock();",
     "void bufferctrl::set_update()\n{\n  if (state == READY)\n    state = UPDATING;\n  std::unique_lock<std::mutex> locker(lock);\n  WV_POINT(\"su\", -1);\n  cv_update.notify_all();\n  locker.unlock();", 0),   # a data race in the C++ memory model but behaviourally benign under sequential consistency: documented limit (DESIGN 10.4), must stay green
    ("revert-D1-eof-peek", ["C01", "C04"], "kernel/multi_aes/multi_buffergroup.cpp", "    if (peek == EOF)\n      readover = true;\n", "    if (peek == EOF)\n      readover = false;\n", 1),
    ("pad-strip-wrong-byte", ["C01"], "kernel/multi_aes/multi_buffergroup.cpp", "b[now - 1][15]", "b[now - 1][14]", 1),
    ("tag-range-skips-ivs", ["C02", "C05"], "kernel/cry.cpp", None, None, 1),
    ("tag-compare-one-byte-short", ["C08", "C05"], "kernel/fheader.cpp", "    for (int i = 0; i < length; ++i)\n        if (hmac_out[i] != hmac_res[i])", "    for (int i = 0; i < length - 1; ++i)\n        if (hmac_out[i] != hmac_res[i])", 1),
    ("ctr-increments-last-byte-only", ["C10"], "kernel/multi_aes/aes/aesmode.cpp", "    for (int i = 15; i >= 0; i--)\n    {\n      iv[i]++;\n      if (iv[i] != 0)\n        break;\n    }", "    iv[15]++;", 1),
    ("sha1-threshold-56-to-57", ["C07"], "kernel/hash/sha1.cpp", "  if (final_loadsize >= 56)", "  if (final_loadsize > 56)", 1),
    ("md5-length-counts-extra-block", ["C07", "C08"], "kernel/hash/md5.cpp", "(u8_t)((msgbits >> (i << 3)));", "(u8_t)((totalsize >> (i << 3)));", 1),
    ("refill-loses-tail-at-boundary", ["C07", "C08"], "kernel/hash/hashbuffer.cpp", "  if (now == total)\n    tail = 0;\n", "  if (now >= total)\n    tail = 0;\n  load_size = (now > total) ? 0 : load_size;\n", 0),   # equivalent mutant: must stay green
    ("del_instance-missing-on-decrypt", ["C15"], "kernel/cry.cpp", "    resultprint->printtask(\"Releasing allocated memory\");\n    buffergroup::del_instance();\n    release(iv, mode);", "    resultprint->printtask(\"Releasing allocated memory\");\n    release(iv, mode);", 1),
    ("getopt-reset-optind-1", ["C15"], "valget/getopts.cpp", "    optind = 0;", "    optind = 1;", 1),
    ("validator-accepts-one-pad", ["C16", "C17"], "valget/base64/base64.cpp", "    if (tail != 2)\n        return false;", "    if (tail > 2 || tail == 0)\n        return false;", 1),
    ("b64-table-swapped-entries", ["C16"], "valget/base64/tab.h", "'+', '/'}", "'/', '+'}", 1),
    ("sbox-entry-flipped", ["C09"], "kernel/multi_aes/aes/tab.h", "0xBA, 0x78, 0x25, 0x2E", "0xBA, 0x78, 0x25, 0x2F", 1),
    ("verify-skips-mode-range-check", ["C11"], "kernel/cry.cpp", "  if (header.getctype() > 4 || header.gethtype() > 2)\n    return 3;\n", "", 1),
    ("decrypt-ignores-verify-result", ["C06", "C12", "C05"], "kernel/cry.cpp", "  int res = verify(fsize);\n  resultprint->resetPercentage();\n  TIMER_END(Verify_Time);\n  if (res == 0)\n  {", "  int res = verify(fsize);\n  resultprint->resetPercentage();\n  TIMER_END(Verify_Time);\n  if (res == 0 || res == 2)\n  {", 1),
    ("missing-key-check-removed", ["C17"], "valget/getopts.cpp", "        if (res->key == NULL)\n        {\n            strlog(\"Error :\", \"No key specified\");\n            delete res;\n            return NULL;\n        }\n", "", 1),
    ("default-name-sprintf-again", ["C17"], "valget/getopts.cpp", "        fout_fits = snprintf(fout, sizeof(fout), \"%s.wenc\", optarg) < (int)sizeof(fout);", "        sprintf(fout, \"%s.wenc\", optarg);", 1),
    ("revert-D12-mode-number", ["C17"], "valget/getopts.cpp", "    return (v < 0 || v > 255) ? -1 : (int)v;", "    return (int)v;", 1),
    ("revert-D13-decrypt-write-error", ["C17"], "kernel/cry.cpp", "    if (out != NULL && (fflush(out) != 0 || ferror(out)))\n      res = 5;\n", "", 1),
    ("streams-use-second-iv", ["C18", "C02"], "kernel/cry.cpp", "  aesfactory.loadiv(iv);\n", "  aesfactory.loadiv(iv + 4);\n", 1),
    ("hook-deleted-ge", ["C14"], "kernel/multi_aes/multi_buffergroup.cpp", "  WV_POINT(\"ge\", id);\n", "", 2),
]


def special(name, root):
    if name == "tag-range-skips-ivs":
        p = os.path.join(root, "kernel/cry.cpp")
        s = open(p).read()
        a = "  fseek(fin, FILE_IV_MARK, SEEK_SET);\n  if (!hmachandle.cmphmac("
        b = "hmachandle.writeFileHmac(settings.get_htype(), out, key, FILE_IV_MARK, FILE_HMAC_MARK, fsize);"
        assert a in s and b in s
        s = s.replace(a, "  fseek(fin, FILE_TEXT_MARK(threads_num), SEEK_SET);\n  if (!hmachandle.cmphmac(")
        s = s.replace(b, "hmachandle.writeFileHmac(settings.get_htype(), out, key, FILE_TEXT_MARK(threads_num), FILE_HMAC_MARK, fsize);")
        open(p, "w").write(s)


def copy_repo(dst):
    shutil.copytree(wv.REPO, dst, ignore=shutil.ignore_patterns("_build", ".git"))


def run_check(pid, repo, scratch, tag):
    env = dict(os.environ)
    env.update({"WV_REPO": repo, "WV_RUN": os.path.join(scratch, "run-" + tag), "WV_REPLAYS": os.path.join(scratch, "rep-" + tag),
                "WV_EVIDENCE": os.path.join(scratch, "ev-" + tag), "VERIF_TIER": "quick"})
    r = subprocess.run([os.path.join(wv.VERIF, "check"), pid, "--tier", "quick"], env=env, stdout=subprocess.PIPE, stderr=subprocess.STDOUT, text=True, timeout=3000)
    return r.returncode, r.stdout


def main(argv):
    only = None
    for i, a in enumerate(argv):
        if a == "--only":
            only = set(argv[i + 1].split(","))
        if a == "--list":
            for m in MUT:
                print(m[0], m[1], "expect exit", m[5])
            return 0
    scratch = tempfile.mkdtemp(prefix="wv-selftest.", dir="/var/tmp")
    failures = 0
    try:
        muts = [m for m in MUT if not only or m[0] in only]
        jobs = []
        for m in muts:
            name, owners, f, old, new, expect = m
            root = os.path.join(scratch, name)
            copy_repo(root)
            if old is None:
                special(name, root)
            else:
                p = os.path.join(root, f)
                s = open(p).read()
                if old not in s:
                    print("SELFTEST-STALE %s: the text to mutate is no longer in %s (update lib/selftest.py)" % (name, f))
                    failures += 1
                    continue
                open(p, "w").write(s.replace(old, new, 1))
            for o in owners:
                jobs.append((name, o, root, expect))
        pristine = os.path.join(scratch, "pristine")
        if not only:
            copy_repo(pristine)
            for pid in ("C01", "C07", "C14", "C16"):
                jobs.append(("pristine", pid, pristine, 0))
        t0 = time.time()
        with cf.ThreadPoolExecutor(3) as ex:
            futs = [(j, ex.submit(run_check, j[1], j[2], scratch, j[0] + "-" + j[1])) for j in jobs]
            for (name, pid, root, expect), fu in futs:
                rc, out = fu.result()
                ok = rc == expect
                first = [l for l in out.splitlines() if l.startswith("VIOLATION") or l.startswith("ERROR")][:1]
                detail = [l.strip() for l in out.splitlines() if l.startswith("  ")][:1]
                print("%-34s %-4s exit=%d expected=%d %s %s" % (name, pid, rc, expect, "ok" if ok else "SELFTEST-FAILED", (detail or first or [""])[0][:150]))
                if not ok:
                    failures += 1
        print("selftest: %d jobs, %d failures, %.0f s" % (len(jobs), failures, time.time() - t0))
    finally:
        shutil.rmtree(scratch, ignore_errors=True)
    return 1 if failures else 0
