CONSTANTS Gate = TRUE  NotifyReady = TRUE  NotifyUpdate = FALSE  WaitLoop = TRUE  ReadyTest = TRUE  Spurious = FALSE
SPECIFICATION FairSpec
PROPERTIES VisitEnds WorkerEnds WorkerHandsBack
CHECK_DEADLOCK FALSE
