"""C01 - round trip decrypt(encrypt(P)) == P for every length, mode and thread count."""
import concurrent.futures as cf, json, os
import wv
PID = "C01"
S_BLOCKS = 2   # harness chunk = 2 blocks = 32 bytes


def e2e_exe(blocks=S_BLOCKS, hbuf=2):
    return wv.build("h_e2e", ["hash", "aes", "pipe", "kernel"], ["h_e2e.cpp"],
                    ["-DWENCRY_VERIF_HBUF_SZ=%d" % hbuf, "-DWENCRY_VERIF_BUF_SZ=%d" % blocks])


def consts_probe(res):
    """Production constants (no overrides): the relations Chunking/FileFormat rely on."""
    exe = wv.build("h_consts", ["hash", "aes", "pipe", "kernel"], ["h_e2e.cpp"], [], sanitize=False)
    p = os.path.join(wv.RUN, PID, "consts.ndjson")
    os.makedirs(os.path.dirname(p), exist_ok=True)
    r = wv.run_harness(exe, ["consts"], p)
    evs = wv.read_ndjson(p)
    if r.returncode != 0 or len(evs) != 1:
        raise wv.Infra("constants probe failed: rc=%s %s" % (r.returncode, r.stderr[-500:]))
    return evs[0]


def run(tier, replay):
    res = wv.Result(PID, "model_checking", tier)
    with cf.ThreadPoolExecutor(4) as ex:
        fd = ex.submit(wv.design_runs, res, [("RoundTrip", "MC_RoundTrip", True), ("RoundTrip", "MC_RoundTrip_neg_eof", False)])
        fp = ex.submit(wv.proofs, res, "ChunkingProofs")
        fc = ex.submit(consts_probe, res)
        exes = {b: ex.submit(e2e_exe, b) for b in ((2,) if tier == "quick" else (2, 3))}
        exes = {b: f.result() for b, f in exes.items()}
        consts = fc.result(); fd.result(); fp.result()
    if replay:
        events = json.load(open(replay))["replay"]["events"]
    else:
        jobs = []
        if tier == "quick":
            for T in (1, 2, 4):
                jobs.append((exes[2], ["rt", T, 0, 4 * 32 + 17, 1, "rot"]))
            jobs.append((exes[2], ["rt", 16, 0, 4 * 32 + 17, 7, "rot"]))
            jobs.append((exes[2], ["rt", 3, 28, 36, 1, "all"]))
            jobs += [(exes[2], ["ff", T]) for T in (1, 2)]
            jobs += [(exes[2], ["tails", T]) for T in (1, 2)]
        else:
            for b in (2, 3):
                for T in (1, 2, 3, 4, 16):
                    jobs.append((exes[b], ["rt", T, 0, 4 * 16 * b + 17, 1, "all" if T in (2, 3) and b == 2 else "rot"]))
                    jobs.append((exes[b], ["ff", T]))
                    jobs.append((exes[b], ["tails", T]))
        with cf.ThreadPoolExecutor(8) as ex:
            parts = list(ex.map(lambda j: wv.record(res, PID + "/j%d" % j[0], [j[1]]), enumerate(jobs)))
        events = [consts]
        if True:
            # the shipped 16 MiB chunk: lengths around one and two chunks, T = 4 (thorough: also 1 and 16)
            big = wv.build("h_e2e_prod", ["hash", "aes", "pipe", "kernel"], ["h_e2e.cpp"], [], sanitize=False, opt="-O2")
            for T in ((4,) if tier == "quick" else (1, 4, 16)):
                parts.append(wv.record(res, PID + "/big%d" % T, [(big, ["big", T])], timeout=2400))
        for p in parts:
            for e in p:
                e["id"] = len(events); events.append(e)
    bad, st = wv.validate_trace("WencryTrace", events, name=PID + "/tlc", env={"FULL": "0"})
    rts = [e for e in events if e["e"] in ("rt", "rtbig")]
    keys = set((e["S"], e["T"], e["n"], e["cm"], e["hm"]) for e in rts)
    nontriv = [k for k in keys if k[2] % 16 in (0, 1, 15) or k[2] % k[0] in (0, 1, k[0] - 1) or (k[2] + 16 - k[2] % 16) % k[0] == 0]
    res.cov.update({"traces_validated_against_impl": len(rts), "evaluations": len(events), "distinct_nontrivial": len(nontriv),
                    "distinct_configurations": len(keys),
                    "rule": "design: TLC explores RoundTrip.tla for every n in 0..4S+17, S in {32,48,64}, T in {1,2,3,4,16} (symbolic bytes, ideal cipher; negative control EofPeek=FALSE must hang). Binding: real execute_encrypt/verify/decrypt (real threads, chunk override S=32 and in thorough S=48) for every n in 0..4S+17, T in {1,2,4,16} (thorough 1,2,3,4,16), (cmode,hmode) rotated over n (all 15 pairs for a band / for T in {2,3} in thorough), plaintexts that end like PKCS#7 padding (01 / 02 02 / a whole block of 10 / zeros / FF / the pad byte itself) at block and chunk boundaries, random keys, seeds of length {0,1,7,20,55,56,64,255}; each operation in a forked child with a 20 s limit. A configuration is (S,T,n,cm,hm); non-trivial = n at a block boundary (n mod 16 in {0,1,15}) or chunk boundary (n mod S in {0,1,S-1}, or padded length a multiple of S).",
                    "production_constants": {k: v for k, v in consts.items() if k not in ("e", "id")}, "exhaustive": False})
    for e in rts[:: max(1, len(rts) // 3)][:3]:
        res.sample(wv.shorten(e, 16))
    for e, why in bad:
        if e["e"] == "consts":
            res.violation("production constants break a relation the format relies on: " + why[:300], {"events": [e]})
        else:
            res.violation("round trip S=%s T=%s n=%s cm=%s hm=%s: %s" % (e.get("S"), e.get("T"), e.get("n"), e.get("cm"), e.get("hm"), why[:300]), {"events": [e]})
    res.assumptions += ["contents, keys, seeds sampled; lengths exhaustive in 0..4S+17 for the harness chunk sizes; the production chunk size (16 MiB) is exercised at 7 lengths around one and two chunks (bytes compared by the driver, lengths/verdicts by TLC) and by the constants probe, not by exhaustive lengths",
                        "the parallel composition is discharged by C03 (pipeline output = sequential Chunking output under every schedule)"]
    return res.finish()
