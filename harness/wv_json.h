// Minimal ndjson event writer for the verification harnesses.
#ifndef WV_JSON_H
#define WV_JSON_H
#include <stdio.h>
#include <stdlib.h>
#include <string.h>
#include <string>
#include <vector>
#include <random>
#include <unistd.h>
typedef unsigned char u8_t;
// children of the drivers leave with _exit(); under lib/coverage.py they flush their gcov counters first
#ifdef WV_COVERAGE
extern "C" void __gcov_dump(void);
#define WV_EXIT(c) do { __gcov_dump(); _exit(c); } while (0)
#else
#define WV_EXIT(c) _exit(c)
#endif

class Ev
{
  std::string s;

public:
  Ev(const char *e)
  {
    s = "{\"e\":\"";
    s += e;
    s += "\"";
  }
  Ev &i(const char *k, long long v)
  {
    s += ",\"";
    s += k;
    s += "\":";
    s += std::to_string(v);
    return *this;
  }
  Ev &str(const char *k, const std::string &v)
  {
    s += ",\"";
    s += k;
    s += "\":\"";
    for (char c : v)
    {
      if (c == '"' || c == '\\')
      {
        s += '\\';
        s += c;
      }
      else if ((unsigned char)c < 0x20 || (unsigned char)c > 0x7e)
      {
        char b[8];
        snprintf(b, sizeof b, "\\u%04x", (unsigned char)c);
        s += b;
      }
      else
        s += c;
    }
    s += "\"";
    return *this;
  }
  Ev &b(const char *k, const u8_t *p, size_t n)
  {
    s += ",\"";
    s += k;
    s += "\":[";
    for (size_t j = 0; j < n; ++j)
    {
      if (j)
        s += ',';
      s += std::to_string((int)p[j]);
    }
    s += "]";
    return *this;
  }
  Ev &b(const char *k, const std::vector<u8_t> &v) { return b(k, v.data(), v.size()); }
  Ev &ints(const char *k, const std::vector<long long> &v)
  {
    s += ",\"";
    s += k;
    s += "\":[";
    for (size_t j = 0; j < v.size(); ++j)
    {
      if (j)
        s += ',';
      s += std::to_string(v[j]);
    }
    s += "]";
    return *this;
  }
  Ev &raw(const char *k, const std::string &json)
  {
    s += ",\"";
    s += k;
    s += "\":";
    s += json;
    return *this;
  }
  void emit(FILE *f = stdout)
  {
    s += "}\n";
    fwrite(s.data(), 1, s.size(), f);
    fflush(f);
  }
};

struct Rng
{
  std::mt19937_64 g;
  Rng(unsigned long long seed) : g(seed) {}
  unsigned next(unsigned n) { return (unsigned)(g() % n); }
  std::vector<u8_t> bytes(size_t n)
  {
    std::vector<u8_t> v(n);
    for (auto &x : v)
      x = (u8_t)g();
    return v;
  }
};
static inline unsigned long long wv_seed()
{
  const char *s = getenv("VERIF_SEED");
  return s ? strtoull(s, NULL, 10) : 1ULL;
}
// content classes for messages: 0 = patterned (i*7+n), 1 = random, 2 = all 0xff, 3 = zeros
static inline std::vector<u8_t> wv_content(Rng &r, size_t n, int cls)
{
  std::vector<u8_t> v(n);
  for (size_t i = 0; i < n; ++i)
    v[i] = cls == 0 ? (u8_t)(i * 7 + n) : cls == 1 ? (u8_t)r.g() : cls == 2 ? 0xff : 0;
  return v;
}
static u8_t wv_dummy_byte[1];
static inline const u8_t *wv_ptr(const std::vector<u8_t> &v) { return v.empty() ? wv_dummy_byte : v.data(); }
// an in-memory file with real file semantics (fmemopen pads/NUL-terminates and has no true EOF)
#include <sys/mman.h>
#include <unistd.h>
static inline FILE *wv_memfile(const std::vector<u8_t> &v, const char *mode = "rb+")
{
  int fd = memfd_create("wv", 0);
  if (fd < 0)
  {
    perror("memfd_create");
    exit(3);
  }
  size_t off = 0;
  while (off < v.size())
  {
    ssize_t w = write(fd, v.data() + off, v.size() - off);
    if (w <= 0)
    {
      perror("write");
      exit(3);
    }
    off += w;
  }
  lseek(fd, 0, SEEK_SET);
  return fdopen(fd, mode);
}
static inline FILE *wv_emptyfile() { return wv_memfile(std::vector<u8_t>(), "wb+"); }
// the whole contents of a stream (flushes it first; leaves the position at the end)
static inline std::vector<u8_t> wv_slurp(FILE *f)
{
  fflush(f);
  int fd = fileno(f);
  off_t n = lseek(fd, 0, SEEK_END);
  std::vector<u8_t> v(n);
  if (n > 0 && pread(fd, v.data(), n, 0) != n)
  {
    perror("pread");
    exit(3);
  }
  return v;
}
#endif
