----------------------------- MODULE DialogueTrace ----------------------------
(***************************************************************************)
(* Recorded runs of the real Wencry binary in prompt mode (stdin = the     *)
(* lines of a script) judged against Dialogue.tla: the script is replayed  *)
(* through the machine; the prompts the binary printed must be exactly the *)
(* machine's, in order, and the process must end as Outcome says.          *)
(***************************************************************************)
EXTENDS DialogueCore, TLC, Json, IOUtils
Events == ndJsonDeserialize(IOEnv.TRACE)
VARIABLES l, nbad
Why(ev) ==
  LET s == Run(ev.script)  o == Outcome(s) IN
  IF s.pc # "done" THEN <<"the script does not complete the dialogue of the specification">>
  ELSE IF ev.sig # 0 THEN <<"the program was killed by a signal", ev.sig>>
  ELSE IF ev.timeout = 1 THEN <<"the program did not terminate">>
  ELSE IF ev.prompts # s.prompts THEN <<"prompts differ from the specification; expected", s.prompts, "got", ev.prompts>>
  ELSE IF o = "ok" /\ ev.rc # 0 THEN <<"a request that must succeed failed; exit status", ev.rc>>
  ELSE IF o = "ok" /\ ev.effect # 1 THEN <<"exit 0 but the effect of the operation is not there", ev.effect_note>>
  ELSE IF o = "fail" /\ ev.rc = 0 THEN <<"exit 0 although the operation cannot succeed">>
  ELSE IF o = "fail" /\ ev.diag # 1 THEN <<"failure without a diagnostic">>
  ELSE IF o = "none" /\ ev.rc = 0 THEN <<"exit 0 although no operation was requested">>
  ELSE <<"ok">>
Init == l = 1 /\ nbad = 0
Next == /\ l <= Len(Events)
        /\ LET ev == Events[l]  w == Why(ev)
           IN /\ IF w = <<"ok">> THEN TRUE ELSE PrintT(<<"BAD", l, ev.id, w>>)
              /\ nbad' = nbad + (IF w = <<"ok">> THEN 0 ELSE 1)
        /\ l' = l + 1
Finished == (l = Len(Events) + 1) => PrintT(<<"DONE", Len(Events), nbad>>)
TSpec == Init /\ [][Next]_<<l, nbad>>
=============================================================================
