#!/bin/bash
# usage: lib/seedtest.sh <name> <outdir> <check ids...>
# 1. confirms the seeded change in a scratch worktree: stable tests pass with it, demo fails with it and passes without
# 2. applies it to /repo, runs the given checks (quick), undoes it
# 3. stores it under /verif/seeded/<name>/
name=$1; out=$2; shift; shift
[ -f $out/patch.diff ] || { echo "no patch.diff in $out"; exit 2; }
W=/var/tmp/wv-seed-$name; rm -rf $W
git -C /repo worktree add --detach $W HEAD -q || exit 2
res_base=$( (cd $out && timeout 900 bash run.sh $W >/tmp/seed_$name.base.log 2>&1; echo $?) )
git -C $W apply $out/patch.diff || { echo "patch does not apply"; git -C /repo worktree remove --force $W; exit 2; }
st=$(WV_REPO=$W python3 /verif/lib/baseline_off.py | tail -1)
res_mut=$( (cd $out && timeout 900 bash run.sh $W >/tmp/seed_$name.mut.log 2>&1; echo $?) )
git -C /repo worktree remove --force $W; rm -rf $W
echo "confirm: demo on pristine exit=$res_base, demo on mutant exit=$res_mut, stable tests on mutant: $st"
cd /repo && git apply $out/patch.diff || exit 2
cd /verif
# results of runs against a patched tree never touch the committed evidence / replays
export WV_EVIDENCE=/var/tmp/wv-seed-out/$name/ev WV_REPLAYS=/var/tmp/wv-seed-out/$name/rep WV_RUN=/var/tmp/wv-seed-out/$name/run
results=""
for c in "$@"; do
  o=$(./check $c --tier quick 2>&1); rc=$?
  echo "== $c exit=$rc"; echo "$o" | grep -m3 -A1 "^VIOLATION\|^ERROR" | cut -c1-400
  results="$results $c=$rc"
done
git -C /repo checkout -- . ; git -C /repo status --short; rm -rf /var/tmp/wv-seed-out/$name
mkdir -p /verif/seeded/$name
cp $out/patch.diff /verif/seeded/$name/; for f in $out/*; do case "$f" in *.diff) ;; *) [ -f "$f" ] && [ $(stat -c %s "$f") -lt 200000 ] && cp "$f" /verif/seeded/$name/ ;; esac; done
python3 - "$name" "$res_base" "$res_mut" "$st" "$results" <<'PY'
import json,sys,os
name,rb,rm,st,results=sys.argv[1:6]
p='/verif/seeded/%s/meta.json'%name
m=json.load(open(p)) if os.path.exists(p) else {}
m['confirmed']={'demo_exit_on_pristine':int(rb),'demo_exit_on_mutant':int(rm),'stable_tests_on_mutant':st,'ran':'lib/seedtest.sh: scratch worktree of /repo HEAD, run.sh on pristine and patched tree, lib/baseline_off.py on patched tree'}
m['checks_quick']={kv.split('=')[0]:int(kv.split('=')[1]) for kv in results.split()}
json.dump(m,open(p,'w'),indent=1)
print(json.dumps(m['checks_quick']))
PY
