CONSTANTS T = 2  N = 70  S = 32  Dir = "enc"  EofPeek = TRUE  Pad = 5
  Gate = TRUE  NotifyReady = TRUE  NotifyUpdate = TRUE  WaitLoop = TRUE  ReadyTest = TRUE  Spurious = FALSE
  Loads <- MCLoads  DecPad <- MCDecPad
SPECIFICATION GFairSpec
INVARIANTS InitOK Exclusive NoUnderflow InOrder OutPrefix OutExact Quiescent
PROPERTY GTermination
