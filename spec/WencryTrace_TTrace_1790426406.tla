---- MODULE WencryTrace_TTrace_1790426406 ----
EXTENDS Sequences, TLCExt, Toolbox, Naturals, TLC, WencryTrace

_expression ==
    LET WencryTrace_TEExpression == INSTANCE WencryTrace_TEExpression
    IN WencryTrace_TEExpression!expression
----

_trace ==
    LET WencryTrace_TETrace == INSTANCE WencryTrace_TETrace
    IN WencryTrace_TETrace!trace
----

_inv ==
    ~(
        TLCGet("level") = Len(_TETrace)
        /\
        nbad = (0)
        /\
        l = (4)
    )
----

_init ==
    /\ l = _TETrace[1].l
    /\ nbad = _TETrace[1].nbad
----

_next ==
    /\ \E i,j \in DOMAIN _TETrace:
        /\ \/ /\ j = i + 1
              /\ i = TLCGet("level")
        /\ l  = _TETrace[i].l
        /\ l' = _TETrace[j].l
        /\ nbad  = _TETrace[i].nbad
        /\ nbad' = _TETrace[j].nbad

\* Uncomment the ASSUME below to write the states of the error trace
\* to the given file in Json format. Note that you can pass any tuple
\* to `JsonSerialize`. For example, a sub-sequence of _TETrace.
    \* ASSUME
    \*     LET J == INSTANCE Json
    \*         IN J!JsonSerialize("WencryTrace_TTrace_1790426406.json", _TETrace)

=============================================================================

 Note that you can extract this module `WencryTrace_TEExpression`
  to a dedicated file to reuse `expression` (the module in the 
  dedicated `WencryTrace_TEExpression.tla` file takes precedence 
  over the module `WencryTrace_TEExpression` below).

---- MODULE WencryTrace_TEExpression ----
EXTENDS Sequences, TLCExt, Toolbox, Naturals, TLC, WencryTrace

expression == 
    [
        \* To hide variables of the `WencryTrace` spec from the error trace,
        \* remove the variables below.  The trace will be written in the order
        \* of the fields of this record.
        l |-> l
        ,nbad |-> nbad
        
        \* Put additional constant-, state-, and action-level expressions here:
        \* ,_stateNumber |-> _TEPosition
        \* ,_lUnchanged |-> l = l'
        
        \* Format the `l` variable as Json value.
        \* ,_lJson |->
        \*     LET J == INSTANCE Json
        \*     IN J!ToJson(l)
        
        \* Lastly, you may build expressions over arbitrary sets of states by
        \* leveraging the _TETrace operator.  For example, this is how to
        \* count the number of times a spec variable changed up to the current
        \* state in the trace.
        \* ,_lModCount |->
        \*     LET F[s \in DOMAIN _TETrace] ==
        \*         IF s = 1 THEN 0
        \*         ELSE IF _TETrace[s].l # _TETrace[s-1].l
        \*             THEN 1 + F[s-1] ELSE F[s-1]
        \*     IN F[_TEPosition - 1]
    ]

=============================================================================



Parsing and semantic processing can take forever if the trace below is long.
 In this case, it is advised to uncomment the module below to deserialize the
 trace from a generated binary file.

\*
\*---- MODULE WencryTrace_TETrace ----
\*EXTENDS IOUtils, TLC, WencryTrace
\*
\*trace == IODeserialize("WencryTrace_TTrace_1790426406.bin", TRUE)
\*
\*=============================================================================
\*

---- MODULE WencryTrace_TETrace ----
EXTENDS TLC, WencryTrace

trace == 
    <<
    ([nbad |-> 0,l |-> 1]),
    ([nbad |-> 0,l |-> 2]),
    ([nbad |-> 0,l |-> 3]),
    ([nbad |-> 0,l |-> 4])
    >>
----


=============================================================================

---- CONFIG WencryTrace_TTrace_1790426406 ----

INVARIANT
    _inv

CHECK_DEADLOCK
    \* CHECK_DEADLOCK off because of PROPERTY or INVARIANT above.
    FALSE

INIT
    _init

NEXT
    _next

CONSTANT
    _TETrace <- _trace

ALIAS
    _expression
=============================================================================
\* Generated on Sat Sep 26 12:40:08 UTC 2026