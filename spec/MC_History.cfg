CONSTANTS MaxLen = 4  DelOnAllPaths = TRUE  LiveDecOnInv = TRUE  FullGetoptReset = TRUE
SPECIFICATION Spec
INVARIANTS Quiescent HistoryFree
CHECK_DEADLOCK FALSE
