// C16 driver: Base64 encoder / decoder / key validator / printed key of the real code.
//   h_b64 codec <maxlen> <full>     encoder and decoder calls
//   h_b64 keys <file>               candidate key strings, one per line as space-separated byte values
#include "wv_json.h"
#include "base64.h"
#include "getval.h"
#include <iostream>
#include <sstream>

static void enc_event(long &id, const std::vector<u8_t> &in, const char *cls)
{
  size_t cap = 4 * ((in.size() + 2) / 3) + 1 + 8;
  std::vector<u8_t> out(cap, 0xAA);
  bool r = hex_to_base64(wv_ptr(in), in.size(), out.data());
  Ev("encode").i("id", id++).str("cls", cls).b("in", in).b("buf", out).i("ret", r).emit();
}
static void dec_event(long &id, const std::vector<u8_t> &s, const char *cls)
{
  std::vector<u8_t> out(3 * (s.size() / 4) + 8, 0xAA);
  bool r = base64_to_hex(wv_ptr(s), s.size(), out.data());
  Ev("decode").i("id", id++).str("cls", cls).b("s", s).b("buf", out).i("ret", r).emit();
}

int main(int argc, char **argv)
{
  std::string mode = argc > 1 ? argv[1] : "codec";
  Rng rng(wv_seed() * 32452843 + 16);
  long id = 0;
  if (mode == "codec")
  {
    int maxlen = argc > 2 ? atoi(argv[2]) : 50;
    int full = argc > 3 ? atoi(argv[3]) : 0;
    for (int n = 0; n <= maxlen; ++n)
      for (int rep = 0; rep < 3; ++rep)
      {
        auto in = wv_content(rng, n, rep == 0 ? 1 : rep == 1 ? 2 : 3);
        enc_event(id, in, "len");
        // decode what the encoder produced
        std::vector<u8_t> out(4 * ((n + 2) / 3) + 1, 0);
        hex_to_base64(wv_ptr(in), n, out.data());
        out.pop_back();
        dec_event(id, out, "len");
      }
    // three-byte group: every value of each position with the others at 00, ff, random
    for (int pos = 0; pos < 3; ++pos)
      for (int v = 0; v < 256; v += full ? 1 : 3)
        for (int o = 0; o < 3; ++o)
        {
          std::vector<u8_t> g(3, o == 0 ? 0 : o == 1 ? 0xff : (u8_t)rng.g());
          if (o == 2)
            for (auto &x : g)
              x = (u8_t)rng.g();
          g[pos] = v;
          enc_event(id, g, "group");
          std::vector<u8_t> s(5, 0);
          hex_to_base64(g.data(), 3, s.data());
          s.pop_back();
          dec_event(id, s, "group");
        }
    // printed key: what printkey() shows must be accepted and decode to the key
    for (int i = 0; i < 40; ++i)
    {
      auto key = i == 0 ? std::vector<u8_t>(16, 0) : i == 1 ? std::vector<u8_t>(16, 0xff) : rng.bytes(16);
      std::stringstream cap;
      std::streambuf *old = std::cout.rdbuf(cap.rdbuf());
      printkey(key.data());
      std::cout.rdbuf(old);
      std::string line = cap.str();
      while (!line.empty() && (line.back() == '\n' || line.back() == '\r' || line.back() == ' '))
        line.pop_back();
      size_t sp = line.find_last_of(' ');
      std::string tok = sp == std::string::npos ? line : line.substr(sp + 1);
      std::vector<u8_t> s(tok.begin(), tok.end());
      bool v = is_valid_b64(wv_ptr(s), s.size());
      std::vector<u8_t> win(16 + 16, 0xAA);
      if (v)
        base64_to_hex(s.data(), 24, win.data());
      Ev("printkey").i("id", id++).b("key", key).b("printed", s).i("valid", v).b("buf", win).emit();
    }
  }
  else if (mode == "keys")
  {
    FILE *f = fopen(argv[2], "r");
    if (!f)
      return 3;
    char *line = NULL;
    size_t cap = 0;
    while (getline(&line, &cap, f) > 0)
    {
      std::vector<u8_t> s;
      char *p = line;
      int abs_valid = strtol(p, &p, 10);
      while (*p)
      {
        while (*p == ' ')
          ++p;
        if (*p == '\n' || !*p)
          break;
        s.push_back((u8_t)strtol(p, &p, 10));
      }
      // the validator sees a NUL-terminated C string and its strlen, as in getopts.cpp
      std::vector<u8_t> cstr = s;
      cstr.push_back(0);
      size_t len = strlen((const char *)cstr.data());
      bool v = is_valid_b64(cstr.data(), len);
      // an accepted key is decoded by getArgsKey into a 16-byte buffer: base64_to_hex(arg, 24, out)
      std::vector<u8_t> win(16 + 16, 0xAA);
      if (v)
      {
        std::vector<u8_t> padded = cstr;
        padded.resize(32, 0);
        base64_to_hex(padded.data(), 24, win.data());
      }
      Ev("valid").i("id", id++).i("absvalid", abs_valid).b("s", cstr.data(), len).i("res", v).b("buf", win).emit();
    }
  }
  return 0;
}
