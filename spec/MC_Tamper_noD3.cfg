CONSTANTS Ts = {1}  NBs = {1}  Depth = 1  ExemptD3 = FALSE
SPECIFICATION Spec
INVARIANTS TamperSafe
CHECK_DEADLOCK FALSE
