"""C10 - the five mode stream objects equal SP 800-38A; decryptors invert encryptors."""
import concurrent.futures as cf, json
import wv
PID = "C10"


def run(tier, replay):
    res = wv.Result(PID, "exploration", tier)
    with cf.ThreadPoolExecutor(2) as ex:
        fd = ex.submit(wv.design_runs, res, [("MC_ModesToy", "MC_ModesToy", True)])
        exe = wv.build("h_modes", ["aes"], ["h_modes.cpp"])
        fd.result()
    if replay:
        events = json.load(open(replay))["replay"]["events"]
    else:
        events = wv.record(res, PID, [(exe, [20, 0] if tier == "quick" else [40, 300])])
    bad, st = wv.validate_trace("ModesTrace", events, name=PID + "/tlc", shards=8)
    keys = set((e["enc"], e["mode"], e["ivcls"], len(e["ins"])) for e in events)
    nblocks = sum(len(e["ins"]) for e in events)
    res.cov.update({"evaluations": len(events), "distinct_nontrivial": len([k for k in keys if k[3] > 0]), "blocks": nblocks,
                    "rule": "one case = one stream object from AesFactory::createCryMaster (direction, mode 0..4) with an IV class (random, zero, 00..00 FF^k for k=1..16 i.e. a carry through exactly k counter bytes, all-FF wrap) and a block sequence (every length 0..20; thorough: 0..40 and 300-block sequences crossing 1- and 2-byte carries); decryptors are fed the encryptors' outputs (InverseOK) and independent random blocks. TLC replays each stream through the SP 800-38A state machine (spec/Modes.tla over spec/AES128.tla) and compares every output block. Design model MC_ModesToy: inductive inverse step over all registers/blocks of a toy cipher. Non-trivial = at least one block.",
                    "traces_validated_against_impl": len(events), "validator_states": st["states"], "exhaustive": False})
    for e in events[3:: max(1, len(events) // 4)][:4]:
        res.sample(wv.shorten(e, 3))
    for e, why in bad:
        res.violation("%s stream, mode %d, IV class %s, %d blocks: %s" % ("encrypt" if e["enc"] else "decrypt", e["mode"], e["ivcls"], len(e["ins"]), why[:300]), {"events": [e]})
    res.assumptions += ["keys, IVs (within a class) and block contents sampled; IV carry classes and sequence lengths enumerated", "TLC, AES128.tla, Modes.tla"]
    return res.finish()
