------------------------------ MODULE Pipeline ------------------------------
(***************************************************************************)
(* The buffer pipeline of wencry (kernel/multi_aes/multi_buffergroup.cpp,  *)
(* multicry.cpp) as it is written: one I/O thread, T worker threads, T     *)
(* chunk buffers each with a state word, a mutex and two condition         *)
(* variables, plus the unsynchronised accesses the code performs.          *)
(*                                                                         *)
(* Granularity: one action per step a thread takes between two scheduling  *)
(* points of the deterministic scheduler used on the real code (lock       *)
(* acquisition AND release, condition wait / wake-up incl. predicate       *)
(* re-check, every                                                         *)
(* WV_POINT: ge chk bu ti ld0 ld1 ex0 ex1 and the first statement of each  *)
(* critical section wr wu sr su, thread exit, join).  The program points   *)
(* below carry the names of those points.                                  *)
(*                                                                         *)
(* Data: the input is the sequence Loads of chunk loads <<kind, blocks>>   *)
(* (from Chunking); block k of the input is the record [k, cnt, s, q]:     *)
(* its index, how often it was transformed, by which stream, as which      *)
(* block of that stream.                                                   *)
(*                                                                         *)
(* Switches (TRUE = the code as repaired; FALSE = a defect, used only by   *)
(* negative-control configurations):                                       *)
(*   Gate        worker waits for READY/INV before first touching a buffer *)
(*   NotifyReady set_ready notifies cv_ready                               *)
(*   NotifyUpdate set_update notifies cv_update                            *)
(*   WaitLoop    wait_ready re-checks its predicate after a wake-up        *)
(*   ReadyTest   set_update changes the state only if it is READY          *)
(*   Spurious    condition variables may wake up without a notify          *)
(***************************************************************************)
EXTENDS Naturals, Sequences, FiniteSets, TLC

CONSTANTS T, Loads, DecPad, Gate, NotifyReady, NotifyUpdate, WaitLoop, ReadyTest, Spurious, Unbounded
\* Unbounded = TRUE: the input is ANY sequence of full chunks followed by a final one (Loads is
\* ignored; every load chooses its kind and 1..MaxBlocks blocks nondeterministically) and everything
\* that grows with the input (block identities, output, stream counters) is abstracted away, so the
\* state space is finite and TLC decides the control properties for inputs of EVERY length.
MaxBlocks == 2
\* DecPad = 0 when encrypting; when decrypting the value of the last byte of the final
\* buffer (the number of bytes stripped by the final export)

Bufs == 0..(T - 1)
IO == T
Threads == {IO} \cup Bufs
NoOne == T + 1

VARIABLES st, mtx, cvR, cvU, buf, turn, over, live, nload, lstate, out, outlen, hist, pcw, pcio, cur, born, nj
vars == << st, mtx, cvR, cvU, buf, turn, over, live, nload, lstate, out, outlen, hist, pcw, pcio, cur, born, nj >>

\* ---- data ---------------------------------------------------------------
NLoads == Len(Loads)
RECURSIVE BaseOf(_)
BaseOf(j) == IF j = 1 THEN 0 ELSE BaseOf(j - 1) + Loads[j - 1][2]       \* index of the first block of load j
LoadData(j) == [b \in 1..Loads[j][2] |-> [k |-> BaseOf(j) + b - 1, cnt |-> 0, s |-> 99, q |-> 99]]
TotalBlocks == BaseOf(NLoads) + Loads[NLoads][2]
EmptyBuf == [total |-> 0, now |-> 0, final |-> FALSE, data |-> <<>>]

\* what the sequential specification (Chunking) says must come out: every block once, in input
\* order, transformed exactly once by the stream owning its chunk, as that stream's next block
RECURSIVE SeqBefore(_, _)
SeqBefore(j, w) == \* number of blocks stream w has seen before load j
  IF j = 1 THEN 0 ELSE SeqBefore(j - 1, w) + (IF (j - 2) % T = w THEN Loads[j - 1][2] ELSE 0)
ExpectedOf(j) == [b \in 1..Loads[j][2] |->
                    [k |-> BaseOf(j) + b - 1, cnt |-> 1, s |-> (j - 1) % T, q |-> SeqBefore(j, (j - 1) % T) + b - 1]]
RECURSIVE ExpectedUpTo(_)
ExpectedUpTo(j) == IF j = 0 THEN <<>> ELSE ExpectedUpTo(j - 1) \o ExpectedOf(j)
ExpectedLen == 16 * TotalBlocks - DecPad
Expected == SubSeq(ExpectedUpTo(NLoads), 1, (ExpectedLen + 15) \div 16)

\* ---- initial state ---------------------------------------------------------
Init == /\ st = [i \in Bufs |-> "EMPTY"] /\ mtx = [i \in Bufs |-> NoOne]
        /\ cvR = [i \in Bufs |-> {}] /\ cvU = [i \in Bufs |-> {}]
        /\ buf = [i \in Bufs |-> EmptyBuf]
        /\ turn = 0 /\ over = FALSE /\ live = T /\ nload = 1 /\ lstate = "NODATA"
        /\ out = <<>> /\ outlen = 0 /\ hist = [i \in Bufs |-> 0]
        /\ pcw = [i \in Bufs |-> "st"]
        /\ pcio = "sp" /\ cur = [i \in Bufs |-> 0] /\ born = 0 /\ nj = 0

\* ---- ownership bookkeeping (ghost) -------------------------------------------
IOBusy(i) == turn = i /\ pcio \in {"ex0", "ex1", "ld0", "ld1"}
WorkerOwns(i) == st[i] = "READY" /\ ~IOBusy(i)
IOOwns(i) == st[i] \in {"EMPTY", "UPDATING"}

\* ---- worker i ------------------------------------------------------------------
Acquire(i, t) == mtx[i] = NoOne /\ mtx' = [mtx EXCEPT ![i] = t]
ReadyPred(i) == st[i] \in {"READY", "INV"}

\* first step of a freshly created thread: up to its first scheduling point
WStart(i) == /\ pcw[i] = "st" /\ i < born
             /\ pcw' = [pcw EXCEPT ![i] = IF Gate THEN "g0" ELSE "ge"]
             /\ UNCHANGED << st, mtx, cvR, cvU, buf, turn, over, live, nload, lstate, out, outlen, hist, pcio, cur, born, nj >>

\* lock acquisition steps: g0 -> g1, su0 -> su1, wr0 -> wr1
WLock(i) == /\ pcw[i] \in {"g0", "su0", "wr0"} /\ Acquire(i, i)
            /\ pcw' = [pcw EXCEPT ![i] = CASE pcw[i] = "g0" -> "g1" [] pcw[i] = "su0" -> "su1" [] pcw[i] = "wr0" -> "wr1"]
            /\ UNCHANGED << st, cvR, cvU, buf, turn, over, live, nload, lstate, out, outlen, hist, pcio, cur, born, nj >>

\* first statement inside wait_ready's critical section: test the predicate; leave, or go on to
\* cv.wait - which is entered with the mutex still held (program points gp / wrp)
WWaitTest(i) == /\ pcw[i] \in {"g1", "wr1"} /\ mtx[i] = i
                /\ IF ReadyPred(i)
                   THEN /\ pcw' = [pcw EXCEPT ![i] = IF pcw[i] = "g1" THEN "g2" ELSE "wr2"]
                        /\ mtx' = [mtx EXCEPT ![i] = NoOne]
                   ELSE /\ pcw' = [pcw EXCEPT ![i] = IF pcw[i] = "g1" THEN "gp" ELSE "wrp"]
                        /\ mtx' = mtx
                /\ UNCHANGED << st, cvR, cvU, buf, turn, over, live, nload, lstate, out, outlen, hist, pcio, cur, born, nj >>

\* cv.wait proper: release the mutex and join the waiter set in one atomic step (that atomicity is
\* what the condition-variable contract provides; a notifier that does not hold the mutex can still
\* slip in before it - the classic lost wake-up)
WEnqueue(i) == /\ pcw[i] \in {"gp", "wrp"} /\ mtx[i] = i
               /\ mtx' = [mtx EXCEPT ![i] = NoOne]
               /\ cvR' = [cvR EXCEPT ![i] = @ \cup {i}]
               /\ pcw' = [pcw EXCEPT ![i] = IF pcw[i] = "gp" THEN "gw" ELSE "wrw"]
               /\ UNCHANGED << st, cvU, buf, turn, over, live, nload, lstate, out, outlen, hist, pcio, cur, born, nj >>

\* wake-up: removed from the waiter set by a notify (or spuriously), re-acquire, re-check
WWake(i) == /\ pcw[i] \in {"gw", "wrw"} /\ (i \notin cvR[i] \/ Spurious) /\ mtx[i] = NoOne
            /\ cvR' = [cvR EXCEPT ![i] = @ \ {i}]
            /\ IF ReadyPred(i) \/ ~WaitLoop
               THEN /\ pcw' = [pcw EXCEPT ![i] = IF pcw[i] = "gw" THEN "g2" ELSE "wr2"] /\ mtx' = mtx
               ELSE /\ pcw' = [pcw EXCEPT ![i] = IF pcw[i] = "gw" THEN "gp" ELSE "wrp"]
                    /\ mtx' = [mtx EXCEPT ![i] = i]
            /\ UNCHANGED << st, cvU, buf, turn, over, live, nload, lstate, out, outlen, hist, pcio, cur, born, nj >>

\* get_entry (unsynchronised): now < total ? b[now++] : NULL
WGetEntry(i) == /\ pcw[i] = "ge"
                /\ IF buf[i].now < buf[i].total
                   THEN /\ buf' = [buf EXCEPT ![i].now = @ + 1]
                        /\ cur' = [cur EXCEPT ![i] = buf[i].now + 1]
                        /\ pcw' = [pcw EXCEPT ![i] = "cry"]
                   ELSE /\ pcw' = [pcw EXCEPT ![i] = "su0"] /\ UNCHANGED << buf, cur, born, nj >>
                /\ UNCHANGED << st, mtx, cvR, cvU, turn, over, live, nload, lstate, out, outlen, hist, pcio, born, nj >>

\* runcry on the block handed out by get_entry
WCry(i) == /\ pcw[i] = "cry"
           /\ buf' = [buf EXCEPT ![i].data[cur[i]] = [k |-> @.k, cnt |-> @.cnt + 1, s |-> i, q |-> IF Unbounded THEN 0 ELSE hist[i]]]
           /\ hist' = IF Unbounded THEN hist ELSE [hist EXCEPT ![i] = @ + 1]
           /\ pcw' = [pcw EXCEPT ![i] = "ge"]
           /\ UNCHANGED << st, mtx, cvR, cvU, turn, over, live, nload, lstate, out, outlen, pcio, cur, born, nj >>

\* set_update's critical section
WSetUpdate(i) == /\ pcw[i] = "su1" /\ mtx[i] = i
                 /\ IF st[i] = "READY" \/ ~ReadyTest
                    THEN /\ st' = [st EXCEPT ![i] = "UPDATING"]
                         /\ cvU' = IF NotifyUpdate THEN [cvU EXCEPT ![i] = {}] ELSE cvU
                    ELSE UNCHANGED << st, cvU >>
                 /\ mtx' = [mtx EXCEPT ![i] = NoOne]
                 /\ pcw' = [pcw EXCEPT ![i] = "su2"]
                 /\ UNCHANGED << cvR, buf, turn, over, live, nload, lstate, out, outlen, hist, pcio, cur, born, nj >>

\* the step after a mutex release (releasing is a scheduling point: what follows is unsynchronised)
WAfterUnlock(i) == /\ pcw[i] \in {"g2", "su2", "wr2"}
                   /\ pcw' = [pcw EXCEPT ![i] = CASE pcw[i] = "g2" -> "ge" [] pcw[i] = "su2" -> "wr0" [] pcw[i] = "wr2" -> "chk"]
                   /\ UNCHANGED << st, mtx, cvR, cvU, buf, turn, over, live, nload, lstate, out, outlen, hist, pcio, cur, born, nj >>

\* after wait_ready: unsynchronised cmpstate(READY), then get_entry in the same step
WCheck(i) == /\ pcw[i] = "chk"
             /\ IF st[i] = "READY" /\ buf[i].now < buf[i].total
                THEN /\ buf' = [buf EXCEPT ![i].now = @ + 1]
                     /\ cur' = [cur EXCEPT ![i] = buf[i].now + 1]
                     /\ pcw' = [pcw EXCEPT ![i] = "cry"]
                ELSE /\ pcw' = [pcw EXCEPT ![i] = "done"] /\ UNCHANGED << buf, cur, born, nj >>
             /\ UNCHANGED << st, mtx, cvR, cvU, turn, over, live, nload, lstate, out, outlen, hist, pcio, born, nj >>

Worker(i) == WStart(i) \/ WLock(i) \/ WWaitTest(i) \/ WEnqueue(i) \/ WWake(i) \/ WGetEntry(i) \/ WCry(i) \/ WSetUpdate(i) \/ WAfterUnlock(i) \/ WCheck(i)

\* ---- I/O thread ------------------------------------------------------------------
\* run_multicry: create the T worker threads one after the other
IOSpawn == /\ pcio = "sp"
           /\ IF born < T THEN born' = born + 1 /\ pcio' = "sp"
              ELSE born' = born /\ pcio' = "wu0"        \* on into run_buffer, up to the first lock
           /\ UNCHANGED << st, mtx, cvR, cvU, buf, turn, over, live, nload, lstate, out, outlen, hist, pcw, cur, nj >>
UpdPred == st[turn] \in {"UPDATING", "EMPTY"}
IOLock == /\ pcio \in {"wu0", "sr0"} /\ Acquire(turn, IO)
          /\ pcio' = IF pcio = "wu0" THEN "wu1" ELSE "sr1"
          /\ UNCHANGED << st, cvR, cvU, buf, turn, over, live, nload, lstate, out, outlen, hist, pcw, cur, born, nj >>
IOWaitTest == /\ pcio = "wu1" /\ mtx[turn] = IO
              /\ IF UpdPred THEN pcio' = "wu2" /\ mtx' = [mtx EXCEPT ![turn] = NoOne]
                 ELSE pcio' = "wup" /\ mtx' = mtx
              /\ UNCHANGED << st, cvR, cvU, buf, turn, over, live, nload, lstate, out, outlen, hist, pcw, cur, born, nj >>
IOEnqueue == /\ pcio = "wup" /\ mtx[turn] = IO
             /\ mtx' = [mtx EXCEPT ![turn] = NoOne]
             /\ cvU' = [cvU EXCEPT ![turn] = @ \cup {IO}]
             /\ pcio' = "wuw"
             /\ UNCHANGED << st, cvR, buf, turn, over, live, nload, lstate, out, outlen, hist, pcw, cur, born, nj >>
IOWake == /\ pcio = "wuw" /\ (IO \notin cvU[turn] \/ Spurious) /\ mtx[turn] = NoOne
          /\ cvU' = [cvU EXCEPT ![turn] = @ \ {IO}]
          /\ IF UpdPred THEN pcio' = "wu2" /\ mtx' = mtx
             ELSE pcio' = "wup" /\ mtx' = [mtx EXCEPT ![turn] = IO]
          /\ UNCHANGED << st, cvR, buf, turn, over, live, nload, lstate, out, outlen, hist, pcw, cur, born, nj >>
\* buffer_update: unsynchronised cmpstate(UPDATING) -> export; else load (unless over); else set_ready
AfterExport == IF over THEN "sr0" ELSE "ld0"
IOBegin == /\ pcio = "bu"
           /\ pcio' = IF st[turn] = "UPDATING" THEN "ex0" ELSE AfterExport
           /\ lstate' = "NODATA"
           /\ UNCHANGED << st, mtx, cvR, cvU, buf, turn, over, live, nload, out, outlen, hist, pcw, cur, born, nj >>
\* export_buffer between its two points: the bytes leave
IOExport == /\ pcio = "ex0"
            /\ LET b == buf[turn] IN
               IF Unbounded THEN out' = out /\ outlen' = outlen
               ELSE IF b.final       \* only blocks of which at least one byte survives the strip appear in the output
               THEN /\ out' = out \o SubSeq(b.data, 1, (16 * b.now - DecPad + 15) \div 16)
                    /\ outlen' = outlen + 16 * b.now - DecPad
               ELSE /\ out' = out \o b.data /\ outlen' = outlen + 16 * b.total
            /\ pcio' = "ex1"
            /\ UNCHANGED << st, mtx, cvR, cvU, buf, turn, over, live, nload, lstate, hist, pcw, cur, born, nj >>
IOExportEnd == /\ pcio = "ex1" /\ pcio' = AfterExport
               /\ UNCHANGED << st, mtx, cvR, cvU, buf, turn, over, live, nload, lstate, out, outlen, hist, pcw, cur, born, nj >>
\* load_buffer between its two points: fread fills the buffer and the cursor fields
AbsData(nb) == [b \in 1..nb |-> [k |-> 0, cnt |-> 0, s |-> 99, q |-> 99]]
IOLoadAbs(kind, nb) == /\ pcio = "ld0" /\ Unbounded
                       /\ buf' = [buf EXCEPT ![turn] = [total |-> nb, now |-> 0, final |-> (kind = "FINAL") \/ @.final, data |-> AbsData(nb)]]
                       /\ lstate' = kind /\ nload' = nload /\ pcio' = "ld1"
                       /\ UNCHANGED << st, mtx, cvR, cvU, turn, over, live, out, outlen, hist, pcw, cur, born, nj >>
IOLoad == /\ pcio = "ld0" /\ ~Unbounded
          /\ IF nload <= NLoads
             THEN /\ buf' = [buf EXCEPT ![turn] = [total |-> Loads[nload][2], now |-> 0,
                                                    final |-> (Loads[nload][1] = "FINAL") \/ @.final,
                                                    data |-> LoadData(nload)]]
                  /\ lstate' = Loads[nload][1] /\ nload' = nload + 1
             ELSE /\ buf' = [buf EXCEPT ![turn] = [total |-> 0, now |-> 0, final |-> @.final, data |-> <<>>]]
                  /\ lstate' = "NODATA" /\ nload' = nload
          /\ pcio' = "ld1"
          /\ UNCHANGED << st, mtx, cvR, cvU, turn, over, live, out, outlen, hist, pcw, cur, born, nj >>
IOLoadEnd == /\ pcio = "ld1" /\ over' = (lstate # "FULL") /\ pcio' = "sr0"
             /\ UNCHANGED << st, mtx, cvR, cvU, buf, turn, live, nload, lstate, out, outlen, hist, pcw, cur, born, nj >>
\* set_ready's critical section, then on to turn_iter's point
IOSetReady == /\ pcio = "sr1" /\ mtx[turn] = IO
              /\ IF lstate # "NODATA"
                 THEN st' = [st EXCEPT ![turn] = "READY"] /\ live' = live
                 ELSE st' = [st EXCEPT ![turn] = "INV"] /\ live' = live - 1
              /\ cvR' = IF NotifyReady THEN [cvR EXCEPT ![turn] = {}] ELSE cvR
              /\ mtx' = [mtx EXCEPT ![turn] = NoOne]
              /\ pcio' = "sr2"
              /\ UNCHANGED << cvU, buf, turn, over, nload, lstate, out, outlen, hist, pcw, cur, born, nj >>
IOAfterUnlock == /\ pcio \in {"wu2", "sr2"}
                 /\ pcio' = IF pcio = "wu2" THEN "bu" ELSE "ti"
                 /\ UNCHANGED << st, mtx, cvR, cvU, buf, turn, over, live, nload, lstate, out, outlen, hist, pcw, cur, born, nj >>
\* turn_iter: unsynchronised reads of live_num and of the states
RECURSIVE NextTurn(_, _)
NextTurn(t, fuel) == LET n == (t + 1) % T IN IF st[n] # "INV" \/ fuel = 0 THEN n ELSE NextTurn(n, fuel - 1)
IOTurn == /\ pcio = "ti"
          /\ IF live = 0 THEN pcio' = "join" /\ turn' = turn
             ELSE pcio' = "wu0" /\ turn' = NextTurn(turn, T)
          /\ UNCHANGED << st, mtx, cvR, cvU, buf, over, live, nload, lstate, out, outlen, hist, pcw, cur, born, nj >>
\* threads[i].join() for i = 0..T-1, one at a time
IOJoin == /\ pcio = "join" /\ pcw[nj] = "done"
          /\ nj' = IF nj + 1 = T THEN nj ELSE nj + 1
          /\ pcio' = IF nj + 1 = T THEN "done" ELSE "join"
          /\ UNCHANGED << st, mtx, cvR, cvU, buf, turn, over, live, nload, lstate, out, outlen, hist, pcw, cur, born >>
IOThread == IOSpawn \/ IOLock \/ IOWaitTest \/ IOEnqueue \/ IOWake \/ IOBegin \/ IOExport \/ IOExportEnd \/ IOLoad \/ IOLoadEnd
            \/ (\E kind \in {"FULL", "FINAL"}, nb \in 1..MaxBlocks : IOLoadAbs(kind, nb))
            \/ IOSetReady \/ IOAfterUnlock \/ IOTurn \/ IOJoin

Done == pcio = "done" /\ \A i \in Bufs : pcw[i] = "done"
Terminated == Done /\ UNCHANGED vars
Next == IOThread \/ (\E i \in Bufs : Worker(i)) \/ Terminated
Spec == Init /\ [][Next]_vars
\* strong fairness per thread: a lock acquisition is only intermittently enabled while a
\* neighbour spins through spurious wake-ups
FairSpec == Spec /\ SF_vars(IOThread) /\ \A i \in Bufs : SF_vars(Worker(i))
\* unbounded input: it does end (some load is eventually the final one)
UFairSpec == FairSpec /\ SF_vars(\E nb \in 1..MaxBlocks : IOLoadAbs("FINAL", nb))

\* ---- properties ------------------------------------------------------------------
TypeOK == /\ st \in [Bufs -> {"EMPTY", "UPDATING", "READY", "INV"}]
          /\ mtx \in [Bufs -> Threads \cup {NoOne}]
          /\ turn \in Bufs /\ live \in 0..T /\ over \in BOOLEAN
\* C14: exclusive hand-over.  A thread whose next step reads or modifies buffer contents (takes
\* an entry, transforms a block) must hold the buffer: READY and no I/O interval open; while an
\* I/O interval (export or load) is open the buffer must be the I/O thread's (EMPTY / UPDATING).
\* (Steps at plain program points are always enabled, so a state in which such a step is pending
\* without ownership is a state from which the forbidden access happens.)
WorkerAccessPending(i) == \/ pcw[i] = "ge" /\ buf[i].now < buf[i].total
                          \/ pcw[i] = "cry"
                          \/ pcw[i] = "chk" /\ st[i] = "READY" /\ buf[i].now < buf[i].total
Exclusive == /\ \A i \in Bufs : WorkerAccessPending(i) => WorkerOwns(i)
             /\ \A i \in Bufs : IOBusy(i) => IOOwns(i)
\* a final buffer is never flushed before its blocks were consumed (16*now - pad would underflow)
NoUnderflow == (pcio = "ex0" /\ buf[turn].final) => buf[turn].now > 0
\* C14: a worker only ever works on its own buffer's chunks, in file order
InOrder == \A i \in Bufs : \A b \in 1..Len(buf[i].data) :
             buf[i].data[b].cnt > 0 => buf[i].data[b].s = i
\* C03: what has been written is a prefix of what the sequential specification prescribes
IsPrefixOf(a, b) == Len(a) <= Len(b) /\ \A x \in 1..Len(a) : a[x] = b[x]
OutPrefix == IsPrefixOf(out, Expected)
OutExact == Done => out = Expected /\ outlen = ExpectedLen
\* C15 (process state): the live counter is back to zero, every buffer retired, no lock held
Quiescent == Done => live = 0 /\ (\A i \in Bufs : st[i] = "INV" /\ mtx[i] = NoOne) /\ over
\* C04
Termination == <>Done
\* mutual exclusion sanity of the model itself
LockDiscipline == \A i \in Bufs : (pcw[i] \in {"g1", "gp", "su1", "wr1", "wrp"} => mtx[i] = i)
                                  /\ (pcio \in {"wu1", "wup", "sr1"} => mtx[turn] = IO)
=============================================================================
