// Forced-include shim (-include wv_sync.h) that puts the pipeline sources of wencry under a
// deterministic scheduler WITHOUT editing them: the tokens mutex / condition_variable / thread
// are mapped to scheduler-aware classes in namespace std; std::unique_lock / std::lock_guard are
// the real templates instantiated over the replacement mutex.
// Every standard header the sources (and the harness) use must be included BEFORE the defines.
#ifndef WV_SYNC_H
#define WV_SYNC_H
#include <mutex>
#include <condition_variable>
#include <thread>
#include <functional>
#include <string>
#include <iostream>
#include <iomanip>
#include <sstream>
#include <vector>
#include <map>
#include <set>
#include <unordered_map>
#include <unordered_set>
#include <algorithm>
#include <atomic>
#include <memory>
#include <random>
#include <chrono>
#include <stdexcept>
#include <string.h>
#include <stdio.h>
#include <stdlib.h>

namespace wv
{
using real_mutex = std::mutex;
using real_cv = std::condition_variable;
using real_thread = std::thread;
using real_ulock = std::unique_lock<std::mutex>;

struct abort_run
{
}; // thrown into every blocked thread to unwind a deadlocked / abandoned run

class wv_mutex
{
public:
  int holder = -1; // logical thread id, -1 = free
  wv_mutex() noexcept {}
  wv_mutex(const wv_mutex &) = delete;
  wv_mutex &operator=(const wv_mutex &) = delete;
  void lock();
  void unlock();
  bool try_lock();
};

class wv_condition_variable
{
public:
  std::vector<int> waiters; // logical ids blocked in wait() and not yet notified
  wv_condition_variable() noexcept {}
  wv_condition_variable(const wv_condition_variable &) = delete;
  void wait(std::unique_lock<wv_mutex> &lk);
  template <class P>
  void wait(std::unique_lock<wv_mutex> &lk, P pred)
  {
    while (!pred())
      wait(lk);
  }
  // timed waits: under the scheduler a time-out can fire at any moment (the wake-up is always
  // enabled), which is exactly the set of behaviours a real time-out admits
  std::cv_status wait_timed(std::unique_lock<wv_mutex> &lk);
  template <class R, class Pd>
  std::cv_status wait_for(std::unique_lock<wv_mutex> &lk, const std::chrono::duration<R, Pd> &) { return wait_timed(lk); }
  template <class C, class D>
  std::cv_status wait_until(std::unique_lock<wv_mutex> &lk, const std::chrono::time_point<C, D> &) { return wait_timed(lk); }
  template <class R, class Pd, class P>
  bool wait_for(std::unique_lock<wv_mutex> &lk, const std::chrono::duration<R, Pd> &, P pred)
  {
    while (!pred())
      if (wait_timed(lk) == std::cv_status::timeout)
        return pred();
    return true;
  }
  template <class C, class D, class P>
  bool wait_until(std::unique_lock<wv_mutex> &lk, const std::chrono::time_point<C, D> &, P pred)
  {
    while (!pred())
      if (wait_timed(lk) == std::cv_status::timeout)
        return pred();
    return true;
  }
  void notify_all() noexcept;
  void notify_one() noexcept;
};

class wv_thread
{
  int lid = -1;
  void start(std::function<void()> fn);

public:
  wv_thread() noexcept {}
  template <class F, class... A>
  explicit wv_thread(F &&f, A &&...a) { start(std::bind(std::forward<F>(f), std::forward<A>(a)...)); }
  wv_thread(const wv_thread &) = delete;
  wv_thread(wv_thread &&o) noexcept : lid(o.lid) { o.lid = -1; }
  wv_thread &operator=(wv_thread &&o) noexcept
  {
    lid = o.lid;
    o.lid = -1;
    return *this;
  }
  bool joinable() const noexcept { return lid >= 0; }
  void join();
  ~wv_thread() {}
  static unsigned hardware_concurrency() noexcept { return 16; }
};
} // namespace wv
namespace std
{
using wv_mutex = ::wv::wv_mutex;
using wv_condition_variable = ::wv::wv_condition_variable;
using wv_thread = ::wv::wv_thread;
} // namespace std
#define mutex wv_mutex
#define condition_variable wv_condition_variable
#define thread wv_thread
#endif
