"""C12 - verify accepts exactly what decrypt accepts; writes nothing; inputs stay intact."""
import json
import wv
from props import filelevel as fl
PID = "C12"
ONLY = ["verification and decryption disagree", "verification wrote output", "modified its input", "did not return normally", "non-seekable output"]


def run(tier, replay):
    res = wv.Result(PID, "exploration", tier)
    if replay:
        events = json.load(open(replay))["replay"]["events"]
    else:
        if tier == "quick":
            jobs = [["tamper", 2, 40, 1, 0, 0], ["keys", 2, 30, 2, 1, 8], ["garbage", 2, 60], ["crash", 2, 40, 3, 2, 1], ["tamper", 1, 20, 0, 2, 0]]
        else:
            jobs = [["tamper", T, n, (n + T) % 5, n % 3, 1] for T in (1, 2, 4) for n in (0, 33, 70)] + [["keys", T, 50, T, T % 3, 64] for T in (1, 2, 4)] + \
                   [["garbage", T, 6000] for T in (1, 2, 4, 16)] + [["crash", 2, n, n % 5, n % 3, u] for n in (0, 20, 40, 70) for u in (0, 1)]
        events = fl.collect(res, PID, jobs)
    st, nfull = fl.judge(res, PID, events, only=ONLY)
    ops = [e for e in events if e["e"] == "op"]
    acc = sum(1 for e in ops if e["dec_ret"] == 1)
    keys = set((e["cls"], e["kind"], e["T"], len(e["C"]), e["ver_ret"]) for e in ops)
    res.cov.update({"evaluations": len(ops), "distinct_nontrivial": len(keys), "accepted_cases": acc,
                    "rule": "a mix of the C05/C06/C11/C13 drivers (valid, tampered, truncated, malformed, wrong key, crash states): every event records the verdicts of execute_verify, execute_decrypt into a file and execute_decrypt into a pipe (non-seekable output) on the same bytes and key, with echo on, the size of what verify wrote, and a byte comparison of the input before/after each operation; TLC evaluates VerifyOK <=> DecryptOK (both sinks, same bytes delivered), no output from verify, inputs intact on every event. Distinct = (class, kind, T, length, verdict).",
                    "traces_validated_against_impl": len(ops), "validator_states": st["states"], "exhaustive": False})
    for e in ops[:: max(1, len(ops) // 3)][:3]:
        res.sample(fl.describe(e))
    res.assumptions += ["in the specification both operations share one Verify definition; the binding is what is checked here"]
    return res.finish()
