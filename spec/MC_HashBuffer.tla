---- MODULE MC_HashBuffer ----
EXTENDS HashBuffer
ASSUME StringOK
====
