"""lib/coverage.py [ids..]: which lines of /repo do the conformance drivers actually execute?
A measurement of the binding, not a check: every quick check is run with the drivers built with
--coverage in a separate cache, gcov's per-line counts are merged over all builds, and the lines of each
/repo source file that no driver ever executed are listed (docs/coverage.md).  Nothing here is used by
the registered commands."""
import glob, gzip, json, os, shutil, subprocess, sys, tempfile
sys.path.insert(0, os.path.dirname(os.path.abspath(__file__)))
VERIF = os.path.dirname(os.path.dirname(os.path.abspath(__file__)))


def main(ids):
    scratch = tempfile.mkdtemp(prefix="wv-cov.", dir="/var/tmp")
    env = dict(os.environ)
    env.update({"WV_EXTRA_FLAGS": "--coverage -DWV_COVERAGE", "WV_CACHE": os.path.join(scratch, "cache"), "WV_RUN": os.path.join(scratch, "run"),
                "WV_REPLAYS": os.path.join(scratch, "rep"), "WV_EVIDENCE": os.path.join(scratch, "ev")})
    try:
        status = {}
        for pid in ids:
            r = subprocess.run([os.path.join(VERIF, "check"), pid, "--tier", "quick"], env=env, stdout=subprocess.PIPE, stderr=subprocess.STDOUT, text=True)
            status[pid] = r.returncode
            print(pid, "exit", r.returncode, flush=True)
        lines = {}      # file -> line -> count
        for gcda in glob.glob(os.path.join(scratch, "cache", "*", "*.gcda")):
            d = os.path.dirname(gcda)
            r = subprocess.run(["gcov", "-j", "-t", os.path.basename(gcda)], cwd=d, stdout=subprocess.PIPE, stderr=subprocess.DEVNULL)
            try:
                j = json.loads(r.stdout)
            except Exception:
                continue
            for f in j.get("files", []):
                fn = os.path.normpath(os.path.join(d, f["file"]))
                if not fn.startswith("/repo/"):
                    continue
                m = lines.setdefault(fn[6:], {})
                for l in f["lines"]:
                    m[l["line_number"]] = m.get(l["line_number"], 0) + l["count"]
        out = ["# Lines of /repo executed by the conformance drivers (quick tier)", "",
               "Produced by `python3 lib/coverage.py`; checks run: " + " ".join("%s=%d" % kv for kv in sorted(status.items())), "",
               "| file | executable lines | executed | % | never executed (line numbers) |", "|---|---|---|---|---|"]
        tot = hit = 0
        for fn in sorted(lines):
            m = lines[fn]
            miss = sorted(l for l, c in m.items() if c == 0)
            tot += len(m); hit += len(m) - len(miss)
            rng = []
            for l in miss:
                if rng and l == rng[-1][1] + 1:
                    rng[-1][1] = l
                else:
                    rng.append([l, l])
            out.append("| %s | %d | %d | %.0f | %s |" % (fn, len(m), len(m) - len(miss), 100.0 * (len(m) - len(miss)) / max(1, len(m)),
                                                        " ".join("%d" % a if a == b else "%d-%d" % (a, b) for a, b in rng)))
        out.append("| **total** | %d | %d | %.1f | |" % (tot, hit, 100.0 * hit / max(1, tot)))
        os.makedirs(os.path.join(VERIF, "docs"), exist_ok=True)
        open(os.path.join(VERIF, "docs", "coverage.md"), "w").write("\n".join(out) + "\n")
        print("\n".join(out))
    finally:
        shutil.rmtree(scratch, ignore_errors=True)


if __name__ == "__main__":
    main(sys.argv[1:] or ["C%02d" % i for i in range(1, 19)])
