-------------------------------- MODULE Crash --------------------------------
(***************************************************************************)
(* C13, design level: encryption as the sequence of writes that reach the  *)
(* output, each divisible at every byte; the process may die after any     *)
(* byte.  With the ideal MAC of Wencry.tla: every state of the file other  *)
(* than the completely written one is rejected by verify (hence decrypt).  *)
(*                                                                         *)
(* Plan = "code"        : header (magic, modes, 38 zero bytes, IVs), the   *)
(*                        body chunk by chunk, then the tag at offset 10   *)
(* Plan = "incremental" : (negative control) the tag over what has been    *)
(*                        written so far is patched in after every chunk   *)
(* Plan = "zerofill_last": (negative control) the zero bytes between tag   *)
(*                        and offset 48 are written last                   *)
(***************************************************************************)
EXTENDS Wencry, TLC
CONSTANTS Ts, NBs, HMs, Plan, ChunkBlocks
VARIABLES T, nb, hm, disk, wi, k      \* wi = index of the write in progress, k = bytes of it on disk
vars == <<T, nb, hm, disk, wi, k>>

Final(t, n, h) == Authentic(1, h, t, n)
NChunks(n) == (n + ChunkBlocks - 1) \div ChunkBlocks
\* region number r = the region made of the IVs and the first r chunks (r = NChunks: the full one)
RegionAfter(t, n, h, r) == LET bl == IF r * ChunkBlocks < n THEN r * ChunkBlocks ELSE n
                           IN IVCells(t) \o Sub(BodyCells(n), 1, 16 * bl)
RT(t, n, h) == [r \in 1..NChunks(n) |-> << h, "k", RegionAfter(t, n, h, r) >>]
\* tag tokens: the real final tag is the one over the full region; Authentic() calls it region 1, so
\* in this module the full region is numbered 1 and the partial ones NChunks+1-r ... keep it simple:
TagOf(t, n, h, r) == [i \in 1..HLen(h) |-> <<"t", i, r>>]

\* the write plan: sequence of << offset (0-based), cells >>
HeaderWrites(t, n, h) ==
  << <<0, MagicCells>>, <<8, <<V(1)>> >>, <<9, <<V(h)>> >>, <<10, Zeros(38)>> >> \o
  [i \in 1..t |-> << 48 + 20 * (i - 1), Sub(IVCells(t), 20 * (i - 1) + 1, 20 * i) >>]
ChunkWrite(t, n, c) == LET lo == 16 * ChunkBlocks * (c - 1) + 1
                           hi == IF 16 * ChunkBlocks * c < 16 * n THEN 16 * ChunkBlocks * c ELSE 16 * n
                       IN << 48 + 20 * t + lo - 1, Sub(BodyCells(n), lo, hi) >>
Writes(t, n, h) ==
  CASE Plan = "code" ->
         HeaderWrites(t, n, h) \o [c \in 1..NChunks(n) |-> ChunkWrite(t, n, c)] \o << <<10, TagOf(t, n, h, NChunks(n))>> >>
    [] Plan = "incremental" ->
         HeaderWrites(t, n, h) \o
         [j \in 1..(2 * NChunks(n)) |-> IF j % 2 = 1 THEN ChunkWrite(t, n, (j + 1) \div 2)
                                         ELSE <<10, TagOf(t, n, h, j \div 2)>>]
    [] Plan = "zerofill_last" ->
         << <<0, MagicCells>>, <<8, <<V(1)>> >>, <<9, <<V(h)>> >> >> \o
         << <<10, [i \in 1..38 |-> X(9)]>> >> \o          \* uninitialised bytes first
         [i \in 1..t |-> << 48 + 20 * (i - 1), Sub(IVCells(t), 20 * (i - 1) + 1, 20 * i) >>] \o
         [c \in 1..NChunks(n) |-> ChunkWrite(t, n, c)] \o << <<10, TagOf(t, n, h, NChunks(n))>> >> \o
         << <<10 + HLen(h), Zeros(38 - HLen(h))>> >>

Init == /\ T \in Ts /\ nb \in NBs /\ hm \in HMs /\ disk = <<>> /\ wi = 1 /\ k = 0
\* one more byte of the current write reaches the disk
Put(d, off, c) == IF off + 1 <= Len(d) THEN [d EXCEPT ![off + 1] = c] ELSE d \o [i \in 1..(off - Len(d)) |-> V(0)] \o <<c>>
WriteByte == LET W == Writes(T, nb, hm) IN
             /\ wi <= Len(W)
             /\ disk' = Put(disk, W[wi][1] + k, W[wi][2][k + 1])
             /\ IF k + 1 = Len(W[wi][2]) THEN wi' = wi + 1 /\ k' = 0 ELSE wi' = wi /\ k' = k + 1
             /\ UNCHANGED <<T, nb, hm>>
Next == WriteByte
Spec == Init /\ [][Next]_vars

Complete == wi > Len(Writes(T, nb, hm))
\* the finished file, with its tag being the tag over the full region
FinalFile == LET W == Writes(T, nb, hm) IN
             MagicCells \o <<V(1), V(hm)>> \o TagOf(T, nb, hm, NChunks(nb)) \o Zeros(38 - HLen(hm)) \o IVCells(T) \o BodyCells(nb)
CrashSafe == (disk # FinalFile) => Verify(disk, "k", RT(T, nb, hm)) # 0
FinalAccepted == Complete => (disk = FinalFile /\ Verify(disk, "k", RT(T, nb, hm)) = 0)
\* WriteOrder: strictly sequential up to the end of the file, then exactly one write, of hlen bytes, at 10
WriteOrder == LET W == Writes(T, nb, hm)  n == Len(W) IN
              /\ W[n][1] = 10 /\ Len(W[n][2]) = HLen(hm) /\ W[1][1] = 0
              /\ \A i \in 1..(n - 2) : W[i + 1][1] = W[i][1] + Len(W[i][2])
=============================================================================
