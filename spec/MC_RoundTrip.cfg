CONSTANTS Sizes = {32, 48, 64}  Threads = {1, 2, 3, 4, 16}  EofPeek = TRUE
SPECIFICATION Spec
INVARIANTS CipherLenOK RoundTripOK NoHang ExportLenOK
CHECK_DEADLOCK FALSE
