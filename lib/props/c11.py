"""C11 - any byte string as input file is handled cleanly: failure, no crash, no output."""
import json, os
import wv
from props import filelevel as fl
PID = "C11"


def spec_vectors(res):
    """Garbage.tla enumerates the structural classes with the predicted result code; emit them as vectors."""
    out = os.path.join(wv.RUN, PID, "classes.json"); os.makedirs(os.path.dirname(out), exist_ok=True)
    r = wv.tlc("Garbage", env={"OUT": out}, workers=1, timeout=300)
    if not os.path.exists(out) or "CLASSES" not in r["out"]:
        raise wv.Infra("Garbage.tla did not produce classes:\n" + r["out"][-2000:])
    vecs = json.load(open(out))
    path = os.path.join(wv.RUN, PID, "classes.txt")
    with open(path, "w") as f:
        for v in vecs:
            f.write("%d %d %d %d %d\n" % (v["len"], 1 if v["magic"] else 0, v["ct"], v["ht"], v["tag"]))
    res.cov["classes_from_spec"] = len(vecs)
    return path


def run(tier, replay):
    res = wv.Result(PID, "model_checking", tier)
    wv.design_runs(res, [("MC_Garbage", "MC_Garbage", True)])
    if replay:
        events = json.load(open(replay))["replay"]["events"]
    else:
        vp = spec_vectors(res)
        cnt = 120 if tier == "quick" else 8000
        jobs = [["garbage", T, cnt, vp] for T in ((1, 2, 4) if tier == "quick" else (1, 2, 3, 4, 16))]
        jobs += [["tamper", 2, 40, 1, 0, 0]] if tier == "quick" else [["tamper", T, 60, 2, 1, 1] for T in (1, 4)]
        events = fl.collect(res, PID, jobs)
    st, nfull = fl.judge(res, PID, events, full_sample=40 if tier == "quick" else 600, d3="exclude")
    ops = [e for e in events if e["e"] == "op"]
    keys = set((e["cls"], e["kind"], e["T"], len(e["C"]), tuple(e["C"][8:10])) for e in ops)
    res.cov.update({"traces_validated_against_impl": len(ops), "evaluations": len(ops), "distinct_nontrivial": len(keys), "recomputed_with_real_hmac": nfull,
                    "rule": "design: MC_Garbage - TLC enumerates the structural classes (length class x magic x cipher-mode byte x hash-mode byte x tag kind) on the specification's Verify decision list, checks Clean, and emits the classes as vectors. Binding: each class instantiated with random filling, every truncation of valid files, random garbage, bit-noise on valid files, files keyed differently; verify and decrypt under ASan+UBSan in forked children (a signal, sanitizer abort or timeout is recorded as an abnormal outcome and rejected). Distinct = (class, kind, T, length, mode bytes).",
                    "validator_states": st["states"], "exhaustive": False})
    for e in ops[:: max(1, len(ops) // 4)][:4]:
        res.sample(fl.describe(e))
    res.assumptions += ["memory safety is observed only through ASan/UBSan on the executions actually run", "files carrying a valid tag that were not produced by encryption are outside the domain (as the property states)"]
    return res.finish()
