------------------------------- MODULE DialogueCore -----------------------------
(***************************************************************************)
(* The interactive prompt mode of wencry (valget/getval1.cpp get_v_mod1,   *)
(* entered when the program is started without arguments) as a state       *)
(* machine over the LINES the user types.  None of the listed properties   *)
(* covers this mode (C17 excludes it); the model extends the specification *)
(* to the remaining part of the front end.                                 *)
(*                                                                         *)
(* One action per prompt; an answer is a class of input line:              *)
(*   mode     e E d D v h x V   (first character; only e/E d/D v select an *)
(*            operation, h prints the help, anything else nothing)         *)
(*   file     fMissing (asked again)  fPlain  fEnc (valid .wenc, key K)    *)
(*   newkey   y n (anything but y/Y means: type a key)                     *)
(*   key      kBad (asked again)  kGood (K)  kWrong (well-formed, not K)   *)
(*   cmode    c0 c2  c7 cabc (asked again)      hmode  h1  h5 habc (again) *)
(*   seed     one word, only asked when the cipher mode is not ECB         *)
(*   newname  y n     name: one word                                       *)
(* The machine records the prompts it printed and, at the end, the         *)
(* operation it hands to the library and the outcome the process must      *)
(* report:  "ok" exit 0 with the effect, "fail" exit 255 with a            *)
(* diagnostic, "none" exit 254 (no operation requested).                   *)
(***************************************************************************)
EXTENDS Naturals, Sequences, FiniteSets

CONSTANT MaxRetry        \* how many wrong answers per prompt the exploration tries

S0 == [pc |-> "mode", mode |-> "u", file |-> "none", key |-> "none", ct |-> 0, newname |-> FALSE,
       retry |-> 0, prompts |-> <<"mode?">>, script |-> <<>>]

Answers(s) ==
  CASE s.pc = "mode"    -> {"e", "E", "d", "D", "v", "h", "x", "V"}
    [] s.pc = "file"    -> {"fPlain", "fEnc"} \cup (IF s.retry < MaxRetry THEN {"fMissing"} ELSE {})
    [] s.pc = "newkey"  -> {"y", "n"}
    [] s.pc = "key"     -> {"kGood", "kWrong"} \cup (IF s.retry < MaxRetry THEN {"kBad"} ELSE {})
    [] s.pc = "cmode"   -> {"c0", "c2"} \cup (IF s.retry < MaxRetry THEN {"c7", "cabc"} ELSE {})
    [] s.pc = "hmode"   -> {"h1"} \cup (IF s.retry < MaxRetry THEN {"h5", "habc"} ELSE {})
    [] s.pc = "seed"    -> {"seed"}
    [] s.pc = "newname" -> {"y", "n"}
    [] s.pc = "name"    -> {"name"}
    [] OTHER            -> {}

Op(m) == CASE m \in {"e", "E"} -> "e" [] m \in {"d", "D"} -> "d" [] m = "v" -> "v" [] m = "h" -> "h" [] OTHER -> "x"

\* go to prompt p (printing it), consuming answer a
LOCAL Goto(s, a, p, txt) == [s EXCEPT !.pc = p, !.retry = 0, !.prompts = s.prompts \o txt, !.script = Append(s.script, a)]
LOCAL Again(s, a, txt)   == [s EXCEPT !.retry = s.retry + 1, !.prompts = s.prompts \o txt, !.script = Append(s.script, a)]

Step(s, a) ==
  CASE s.pc = "mode" -> [Goto(s, a, "file", <<"file?">>) EXCEPT !.mode = a]
    [] s.pc = "file" ->
         IF a = "fMissing" THEN Again(s, a, <<"notfound">>)
         ELSE LET t == [s EXCEPT !.file = a] IN
              CASE Op(s.mode) = "e" -> Goto(t, a, "newkey", <<"filesize", "newkey?">>)
                [] Op(s.mode) = "d" -> Goto(t, a, "newname", <<"filesize", "newname?">>)
                [] Op(s.mode) = "v" -> Goto(t, a, "key", <<"filesize", "key?">>)
                [] Op(s.mode) = "h" -> Goto(t, a, "done", <<"filesize", "help">>)
                [] OTHER            -> Goto(t, a, "done", <<"filesize">>)
    [] s.pc = "newkey" ->
         IF a = "y" THEN [Goto(s, a, "cmode", <<"outfile", "keyis", "cmode?">>) EXCEPT !.key = "random"]
         ELSE Goto(s, a, "key", <<"key?">>)
    [] s.pc = "key" ->
         IF a = "kBad" THEN Again(s, a, <<"keyagain">>)
         ELSE LET t == [s EXCEPT !.key = a] IN
              IF Op(s.mode) = "e" THEN Goto(t, a, "cmode", <<"outfile", "keyis", "cmode?">>)
              ELSE Goto(t, a, "done", <<>>)
    [] s.pc = "cmode" ->
         IF a \in {"c7", "cabc"} THEN Again(s, a, <<"modeagain">>)
         ELSE [Goto(s, a, "hmode", <<"cmodeis", "hmode?">>) EXCEPT !.ct = IF a = "c0" THEN 0 ELSE 2]
    [] s.pc = "hmode" ->
         IF a \in {"h5", "habc"} THEN Again(s, a, <<"modeagain">>)
         ELSE IF s.ct # 0 THEN Goto(s, a, "seed", <<"hmodeis", "seed?">>)
         ELSE Goto(s, a, "done", <<"hmodeis">>)
    [] s.pc = "seed" -> Goto(s, a, "done", <<>>)
    [] s.pc = "newname" ->
         IF a = "y" THEN [Goto(s, a, "name", <<"entername">>) EXCEPT !.newname = TRUE]
         ELSE Goto(s, a, "key", <<"outfile", "key?">>)
    [] s.pc = "name" -> Goto(s, a, "key", <<"outfile", "key?">>)
    [] OTHER -> s

\* what the finished dialogue asks of the library, and what the process must report
Outcome(s) ==
  CASE Op(s.mode) = "e" -> "ok"
    [] Op(s.mode) \in {"d", "v"} -> IF s.file = "fEnc" /\ s.key = "kGood" THEN "ok" ELSE "fail"
    [] OTHER -> "none"

RECURSIVE RunFrom(_, _)
RunFrom(s, as) == IF as = <<>> \/ s.pc = "done" THEN s ELSE RunFrom(Step(s, Head(as)), Tail(as))
Run(as) == RunFrom(S0, as)

=============================================================================
