------------------------------ MODULE MDProofs ------------------------------
(***************************************************************************)
(* TLAPS proofs of the Merkle-Damgaard padding arithmetic of MD.tla for    *)
(* EVERY message length (C07: "regardless of how the length relates to the *)
(* 64-byte block and the 56-byte threshold"):                              *)
(*   - the zero fill is 0..63 bytes and makes the padded length a multiple *)
(*     of 64                                                               *)
(*   - the number of compression calls is n div 64 + 1, or + 2 exactly     *)
(*     when n mod 64 >= 56                                                 *)
(* The two definitions are restated here (tlapm does not load the Java-    *)
(* backed modules Bytes.tla extends); MDProofsLink.tla lets TLC check that *)
(* they are the ones of MD.tla.                                            *)
(***************************************************************************)
EXTENDS Naturals, Integers, TLAPS
ZeroFill(n) == (119 - (n % 64)) % 64
NBlocks(n) == (n \div 64) + (IF n % 64 >= 56 THEN 2 ELSE 1)
PaddedLen(n) == n + 1 + ZeroFill(n) + 8

THEOREM ZeroFillRange == \A n \in Nat : ZeroFill(n) \in 0..63
  BY DEF ZeroFill
THEOREM PaddedIsWholeBlocks == \A n \in Nat : PaddedLen(n) % 64 = 0
  BY DEF PaddedLen, ZeroFill
THEOREM BlockCount == \A n \in Nat : PaddedLen(n) = 64 * NBlocks(n)
  BY DEF PaddedLen, ZeroFill, NBlocks
THEOREM ExtraBlockIffThreshold == \A n \in Nat : (NBlocks(n) = (n \div 64) + 2) <=> (n % 64 >= 56)
  BY DEF NBlocks
\* the tail handed to the final-block path (n mod 64 bytes) fits one block with the marker and the
\* length field exactly when it is shorter than 56 bytes
THEOREM TailFits == \A k \in 0..63 : (k + 1 + 8 <= 64) <=> (k < 56)
  OBVIOUS
=============================================================================
