CONSTANTS T = 1  N = 0  S = 32  Dir = "enc"  EofPeek = TRUE  Pad = 0
  Gate = TRUE  NotifyReady = TRUE  NotifyUpdate = TRUE  WaitLoop = TRUE  ReadyTest = TRUE  Spurious = FALSE  Unbounded = TRUE
  Loads <- MCLoads  DecPad <- MCDecPad
SPECIFICATION Spec
INVARIANTS TypeOK Exclusive NoUnderflow LockDiscipline Quiescent
PROPERTIES Refines0 RefinesLast
