// C09 driver: dumps the implementation's tables and records single-block AES calls.
#include "wv_json.h"
#include "multi_aes/aes/aes.h"
#include "multi_aes/aes/tab.h"

static void enc_dec(long &id, const std::vector<u8_t> &key, const std::vector<u8_t> &blk, const char *cls)
{
  u8_t w[16];
  memcpy(w, blk.data(), 16);
  {
    encryaes e(key.data());
    e.runaes_128bit(w);
  }
  Ev("enc").i("id", id++).str("cls", cls).b("key", key).b("in", blk).b("out", w, 16).emit();
  u8_t c[16];
  memcpy(c, w, 16);
  {
    decryaes d(key.data());
    d.runaes_128bit(w);
  }
  Ev("dec").i("id", id++).str("cls", cls).b("key", key).b("in", c, 16).b("out", w, 16).emit();
}

int main(int argc, char **argv)
{
  int nrand = argc > 1 ? atoi(argv[1]) : 200;
  int full = argc > 2 ? atoi(argv[2]) : 0;
  Rng rng(wv_seed() * 104729 + 9);
  long id = 0;
  {
    Ev t("tables");
    t.i("id", id++).b("sbox", s_box, 256).b("rsbox", rs_box, 256).b("log", Logtable, 256).b("alog", Alogtable, 512).b("rc", RC, 11);
    // every product the round functions can form: Gmul(u, v) for the seven exponents the code uses
    const int us[7] = {0, 1, 25, 104, 199, 223, 238};
    std::string g = "[";
    for (int k = 0; k < 7; ++k)
    {
      g += k ? ",[" : "[";
      for (int v = 0; v < 256; ++v)
      {
        u8_t p = Gmul(us[k], (u8_t)v);
        g += (v ? "," : "") + std::to_string((int)p);
      }
      g += "]";
    }
    g += "]";
    t.raw("gmul", g).ints("us", {0, 1, 25, 104, 199, 223, 238}).emit();
  }
  // FIPS-197 appendix C.1 and B
  {
    std::vector<u8_t> k(16), p(16);
    for (int i = 0; i < 16; ++i)
      k[i] = i, p[i] = i * 17;
    enc_dec(id, k, p, "fips-c1");
    u8_t kb[16] = {0x2b, 0x7e, 0x15, 0x16, 0x28, 0xae, 0xd2, 0xa6, 0xab, 0xf7, 0x15, 0x88, 0x09, 0xcf, 0x4f, 0x3c};
    u8_t pb[16] = {0x32, 0x43, 0xf6, 0xa8, 0x88, 0x5a, 0x30, 0x8d, 0x31, 0x31, 0x98, 0xa2, 0xe0, 0x37, 0x07, 0x34};
    enc_dec(id, std::vector<u8_t>(kb, kb + 16), std::vector<u8_t>(pb, pb + 16), "fips-b");
  }
  std::vector<u8_t> zero(16, 0);
  // single-bit keys / blocks
  for (int bit = 0; bit < 128; bit += full ? 1 : 5)
  {
    std::vector<u8_t> k(16, 0), p(16, 0);
    k[bit / 8] = 0x80 >> (bit % 8);
    enc_dec(id, k, zero, "bit-key");
    p[bit / 8] = 0x80 >> (bit % 8);
    enc_dec(id, zero, p, "bit-block");
  }
  // every byte value at every position (first-round S-box / log entries per position)
  {
    auto k = rng.bytes(16);
    for (int pos = 0; pos < 16; ++pos)
      for (int v = 0; v < 256; v += full ? 1 : 16)
      {
        auto p = zero;
        p[pos] = (v + pos) & 0xff;
        enc_dec(id, k, p, "byte-sweep");
      }
  }
  for (int i = 0; i < nrand; ++i)
  {
    enc_dec(id, rng.bytes(16), rng.bytes(16), "random");
    // decryption of an independent random block (not produced by the encryptor)
    auto k = rng.bytes(16), c = rng.bytes(16);
    u8_t w[16];
    memcpy(w, c.data(), 16);
    decryaes d(k.data());
    d.runaes_128bit(w);
    Ev("dec").i("id", id++).str("cls", "random-dec").b("key", k).b("in", c).b("out", w, 16).emit();
  }
  return 0;
}
