"""lib/costtable.py: the table of DESIGN 10.7 from the evidence files of the last run of every check."""
import glob, json, os
V = os.path.dirname(os.path.dirname(os.path.abspath(__file__)))
m = {c["property_id"]: c for c in json.load(open(os.path.join(V, "MANIFEST.json")))["checks"]}
print("| property | level | tier | wall s | TLC states (design models + code graphs) | cases validated against the implementation | distinct non-trivial cases / code-graph states |")
print("|---|---|---|---|---|---|---|")
for f in sorted(glob.glob(os.path.join(V, "evidence", "C*.json"))):
    e = json.load(open(f)); c = e["coverage"]
    cases = c.get("traces_validated_against_impl", "-")
    extra = []
    for k, lab in (("real_thread_executions_validated", "real-thread executions"), ("end_to_end_multichunk_files_recomputed", "multi-chunk files"), ("end_to_end_operations_checked_for_termination", "end-to-end operations"),
                   ("tlaps_obligations", "TLAPS obligations"), ("structured_vectors_from_spec", "structured vectors from the spec"), ("hash_buffer_runs_validated_as_behaviours", "buffer runs as behaviours")):
        if k in c:
            extra.append("%s %s" % (c[k], lab))
    dn = c.get("code_graph_states") and ("%s code states" % c["code_graph_states"]) or c.get("distinct_nontrivial", "-")
    print("| %s | %s | %s | %s | %s | %s%s | %s |" % (e["property_id"], e["level"], e["tier"], round(e["wall_s"]), c.get("states", "-"), cases, (" (+ " + ", ".join(extra) + ")") if extra else "", dn))
