// C15 driver: histories of operations inside ONE process versus the same operation alone in a
// fresh process.   h_hist <histories-file>     lines: space separated operation numbers
#include "wv_ops.h"
#include "getval.h"
#include <fstream>
#include <sstream>

struct wv_probe
{
  static int inst_null() { return !buffergroup::instance; }
  static int live() { return bufferctrl::live_num; }
};

struct Fixture
{
  std::vector<u8_t> PA, PB, PC, keyA, keyB, keyC, seed, fileA, fileB, fileC, tamperedA, tamperedB, tamperedC, garbage, modebyte, wrongkey, wrongA, wrongC;
  std::string dir, inpath, goodkey;
} fx;

static std::vector<u8_t> vpak_bytes(u8_t *r)
{
  std::vector<u8_t> v;
  if (!r)
  {
    v.push_back(0);
    return v;
  }
  vpak_t *p = (vpak_t *)r;
  v.push_back(1);
  v.push_back((u8_t)p->mode);
  v.push_back((u8_t)p->ctype);
  v.push_back((u8_t)p->htype);
  v.push_back(p->no_echo);
  v.push_back(p->fp != NULL);
  v.push_back(p->out != NULL);
  v.push_back(p->key != NULL);
  if (p->key && p->mode != 'e')
    v.insert(v.end(), p->key, p->key + 16);
  if (p->fp)
    fclose(p->fp);
  if (p->out)
    fclose(p->out);
  return v;
}
static u8_t *parse(std::vector<std::string> args)
{
  std::vector<char *> argv;
  static std::vector<std::string> keep;
  keep = args;
  keep.insert(keep.begin(), "wencry");
  for (auto &s : keep)
    argv.push_back((char *)s.c_str());
  argv.push_back(NULL);
  return get_v_opt((int)keep.size(), argv.data());
}

static const int NOPS = 37;
static const char *opname[NOPS] = {"encA(T1,n20,cbc,sha1)", "encB(T2,n70,ctr,md5)", "encC(T4,n100,ofb,sha256)", "decA(valid)", "decB(wrong key)", "decB(tampered)",
                                   "dec(garbage)", "dec(mode byte 9)", "verB(valid)", "verB(tampered)", "parse(-V)", "parse(-x unknown)", "parse(-dex aborts in cluster)",
                                   "parse(-e -i F -o O -k K --cmode 2)", "decB(valid,T2)", "decB(valid) into an output that cannot be written (/dev/full)",
                                   // the same verdict classes for every hash / cipher configuration: residue of a FAILED check of one kind must not reach a later one of another kind
                                   "decC(valid,T4,ofb,sha256)", "decC(wrong key)", "decC(tampered)", "verC(valid)", "verC(wrong key)", "verC(tampered)",
                                   "verA(valid,sha1)", "verA(wrong key)", "decA(wrong key)", "decA(tampered)", "verB(wrong key)", "ver(garbage)",
                                   // a runner built with the DEFAULT arguments (default_settings, THREAD_NUM): what a caller that does not pass its own Settings gets
                                   "encD(default settings and threads, n70)", "decC(valid) on a default-built runner", "verC(valid) on a default-built runner",
                                   // a wrong key that is the RIGHT key of another file with another hash mode: anything cached per key or per hash mode across operations
                                   "verA(with keyB)", "decB(with keyC)", "verC(with keyA)",
                                   // rejected command lines that exercise libc state (errno, strtol ranges) before a well-formed one
                                   "parse(-e -i F --cmode 99999999999999999999)", "parse(-d -i missing -o O -k bad)",
                                   "encB into an output that cannot be written (/dev/full)"};
static void do_op(int op, bool &ret, std::vector<u8_t> &out)
{
  OpResult r;
  switch (op)
  {
  case 0:
    r = wv_encrypt(fx.PA, fx.keyA, 1, 0, fx.seed, 1);
    break;
  case 1:
    r = wv_encrypt(fx.PB, fx.keyB, 2, 1, fx.seed, 2);
    break;
  case 2:
    r = wv_encrypt(fx.PC, fx.keyC, 4, 2, fx.seed, 4);
    break;
  case 3:
    r = wv_decrypt(fx.fileA, fx.keyA, 1);
    break;
  case 4:
    r = wv_decrypt(fx.fileB, fx.wrongkey, 2);
    break;
  case 5:
    r = wv_decrypt(fx.tamperedB, fx.keyB, 2);
    break;
  case 6:
    r = wv_decrypt(fx.garbage, fx.keyB, 2);
    break;
  case 7:
    r = wv_decrypt(fx.modebyte, fx.keyB, 2);
    break;
  case 8:
    r = wv_verify(fx.fileB, fx.keyB, 2);
    break;
  case 9:
    r = wv_verify(fx.tamperedB, fx.keyB, 2);
    break;
  case 10:
  {
    u8_t *p = parse({"-V"});
    r.ret = p != NULL;
    r.out = vpak_bytes(p);
    break;
  }
  case 11:
  {
    u8_t *p = parse({"-x"});
    r.ret = p != NULL;
    r.out = vpak_bytes(p);
    break;
  }
  case 12:
  {
    u8_t *p = parse({"-dex"});
    r.ret = p != NULL;
    r.out = vpak_bytes(p);
    break;
  }
  case 13:
  {
    u8_t *p = parse({"-e", "-i", fx.inpath, "-o", fx.dir + "/o.wenc", "-k", fx.goodkey, "--cmode", "2"});
    r.ret = p != NULL;
    r.out = vpak_bytes(p);
    break;
  }
  case 14:
    r = wv_decrypt(fx.fileB, fx.keyB, 2);
    break;
  case 15:
  { // the verdict is fine but every write to the output fails: whatever the operation reports, it must leave no residue
    MemFile in(fx.fileB);
    FILE *full = fopen("/dev/full", "wb");
    setvbuf(full, NULL, _IONBF, 0);      // every write reaches the device at once: the failure is seen in the middle of the run, not at the final flush
    Settings st(-1, -1, true);
    {
      runcrypt rc(in.f, full, fx.keyB.data(), st, 2);
      r.ret = rc.execute_decrypt(fx.fileB.size());
    }
    r.out.clear();
    break;
  }
  case 16:
    r = wv_decrypt(fx.fileC, fx.keyC, 4);
    break;
  case 17:
    r = wv_decrypt(fx.fileC, fx.wrongC, 4);
    break;
  case 18:
    r = wv_decrypt(fx.tamperedC, fx.keyC, 4);
    break;
  case 19:
    r = wv_verify(fx.fileC, fx.keyC, 4);
    break;
  case 20:
    r = wv_verify(fx.fileC, fx.wrongC, 4);
    break;
  case 21:
    r = wv_verify(fx.tamperedC, fx.keyC, 4);
    break;
  case 22:
    r = wv_verify(fx.fileA, fx.keyA, 1);
    break;
  case 23:
    r = wv_verify(fx.fileA, fx.wrongA, 1);
    break;
  case 24:
    r = wv_decrypt(fx.fileA, fx.wrongA, 1);
    break;
  case 25:
    r = wv_decrypt(fx.tamperedA, fx.keyA, 1);
    break;
  case 26:
    r = wv_verify(fx.fileB, fx.wrongkey, 2);
    break;
  case 27:
    r = wv_verify(fx.garbage, fx.keyB, 2);
    break;
  case 28:
  {
    MemFile in(fx.PB), out(std::vector<u8_t>(), "wb+");
    auto sd = fx.seed;
    sd.push_back(0);
    {
      runcrypt rc(in.f, out.f, fx.keyB.data());
      r.ret = rc.execute_encrypt(fx.PB.size(), sd.data());
    }
    r.out = out.bytes();
    break;
  }
  case 36:
  {
    MemFile in(fx.PB);
    FILE *full = fopen("/dev/full", "wb+");
    setvbuf(full, NULL, _IONBF, 0);      // every write reaches the device at once: the failure is seen in the middle of the run, not at the final flush
    auto sd = fx.seed;
    sd.push_back(0);
    Settings st(2, 1, true);
    {
      runcrypt rc(in.f, full, fx.keyB.data(), st, 2);
      r.ret = rc.execute_encrypt(fx.PB.size(), sd.data());
    }
    r.out.clear();
    break;
  }
  case 34:
  {
    u8_t *p = parse({"-e", "-i", fx.inpath, "--cmode", "99999999999999999999"});
    r.ret = p != NULL;
    r.out = vpak_bytes(p);
    break;
  }
  case 35:
  {
    u8_t *p = parse({"-d", "-i", fx.dir + "/missing.bin", "-o", fx.dir + "/o2.bin", "-k", "notakey"});
    r.ret = p != NULL;
    r.out = vpak_bytes(p);
    break;
  }
  case 31:
    r = wv_verify(fx.fileA, fx.keyB, 1);
    break;
  case 32:
    r = wv_decrypt(fx.fileB, fx.keyC, 2);
    break;
  case 33:
    r = wv_verify(fx.fileC, fx.keyA, 4);
    break;
  case 29:
  case 30:
  {
    MemFile in(fx.fileC), out(std::vector<u8_t>(), "wb+");
    {
      runcrypt rc(in.f, out.f, fx.keyC.data());
      r.ret = op == 29 ? rc.execute_decrypt(fx.fileC.size()) : rc.execute_verify(fx.fileC.size());
    }
    r.out = out.bytes();
    break;
  }
  }
  ret = r.ret;
  out = r.out;
}

static std::vector<u8_t> g_seedbuf;
int main(int argc, char **argv)
{
  wv_capture_stdout();
  wv_shared_seed = &g_seedbuf;      // all encryptions of this driver share ONE caller-owned seed buffer (fx.seed is the same text for all)
  int nul = open("/dev/null", O_WRONLY);
  dup2(nul, 2); // getopt diagnostics
  Rng rng(4242);
  fx.PA = wv_content(rng, 20, 1), fx.PB = wv_content(rng, 70, 1), fx.PC = wv_content(rng, 100, 1);
  fx.keyA = rng.bytes(16), fx.keyB = rng.bytes(16), fx.keyC = rng.bytes(16), fx.wrongkey = rng.bytes(16);
  // keys that are hostile to C-string handling: embedded NUL bytes and long shared prefixes
  fx.keyA[0] = 0;
  fx.keyB[0] = 0;
  fx.keyC = fx.keyA;
  fx.keyC[15] ^= 0x5a;
  fx.wrongkey = fx.keyB;
  fx.wrongkey[15] ^= 0x33;
  fx.seed = {'s', 'e', 'e', 'd', '1', '2', '3'};
  char tmpl[] = "/tmp/wvhistXXXXXX";
  fx.dir = mkdtemp(tmpl);
  fx.inpath = fx.dir + "/in.bin";
  {
    std::ofstream f(fx.inpath);
    f << "hello history";
  }
  fx.goodkey = "ABEiM0RVZneImaq7zN3u/w==";
  // every fixture is produced in a child of its own (one operation per process: the parent's state stays pristine and
  // the fixtures do not depend on how operations in one process influence each other - that is what is being checked)
  auto make_fixture = [&](int which, std::vector<u8_t> &dst) -> bool
  {
    int pfd[2];
    if (pipe(pfd))
      return false;
    pid_t pid = fork();
    if (pid == 0)
    {
      alarm(30);
      OpResult a = which == 0 ? wv_encrypt(fx.PA, fx.keyA, 1, 0, fx.seed, 1) : which == 1 ? wv_encrypt(fx.PB, fx.keyB, 2, 1, fx.seed, 2) : wv_encrypt(fx.PC, fx.keyC, 4, 2, fx.seed, 4);
      unsigned la = a.out.size();
      if (write(pfd[1], &la, 4) + write(pfd[1], a.out.data(), la) < 0)
        _exit(1);
      _exit(0);
    }
    close(pfd[1]);
    unsigned la = 0;
    bool ok = read(pfd[0], &la, 4) == 4 && la < (1u << 20);
    if (ok)
    {
      dst.resize(la);
      size_t got = 0;
      while (got < la)
      {
        ssize_t n = read(pfd[0], dst.data() + got, la - got);
        if (n <= 0)
          break;
        got += (size_t)n;
      }
      ok = got == la;
    }
    close(pfd[0]);
    int st;
    waitpid(pid, &st, 0);
    return ok && WIFEXITED(st) && WEXITSTATUS(st) == 0;
  };
  if (!make_fixture(0, fx.fileA) || !make_fixture(1, fx.fileB) || !make_fixture(2, fx.fileC) || fx.fileA.size() < 80 || fx.fileB.size() < 80 || fx.fileC.size() < 120)
  {
    Ev("nofixture").i("id", 0).emit(wv_out);
    return 0;
  }
  fx.tamperedB = fx.fileB;
  fx.tamperedB[fx.tamperedB.size() - 3] ^= 0x40;
  fx.tamperedA = fx.fileA;
  fx.tamperedA[fx.tamperedA.size() - 5] ^= 0x01;
  fx.tamperedC = fx.fileC;
  fx.tamperedC[fx.tamperedC.size() - 17] ^= 0x80;
  fx.wrongA = fx.keyA;
  fx.wrongA[15] ^= 0x11;
  fx.wrongC = fx.keyC;
  fx.wrongC[8] ^= 0x04;
  fx.garbage = rng.bytes(120);
  fx.modebyte = fx.fileB;
  fx.modebyte[9] = 9;
  long id = 0;
  // every operation alone in a fresh process
  for (int op = 0; op < NOPS; ++op)
  {
    int detail = 0;
    int how = wv_guarded([&]()
                         {
      bool ret; std::vector<u8_t> out;
      do_op(op, ret, out);
      Ev("fresh").i("id", id).i("op", op).str("name", opname[op]).i("ret", ret).b("out", out).i("inst_null", wv_probe::inst_null()).i("live", wv_probe::live()).str("how", "ok").emit(wv_out); },
                         20, &detail);
    if (how)
      Ev("fresh").i("id", id).i("op", op).str("name", opname[op]).i("ret", 0).b("out", NULL, 0).i("inst_null", 1).i("live", 0).str("how", wv_how[how]).emit(wv_out);
    ++id;
  }
  std::ifstream hf(argv[1]);
  std::string line;
  while (std::getline(hf, line))
  {
    std::vector<int> ops;
    std::stringstream ss(line);
    int o;
    while (ss >> o)
      if (o >= 0 && o < NOPS)
        ops.push_back(o);
    if (ops.empty())
      continue;
    int detail = 0;
    // a tree on which operations hang would otherwise cost one time limit per history: after a few histories that did
    // not run to completion the rest is not run (the ones recorded are the verdict; "skipped" ones are not judged)
    static int n_abnormal = 0;
    std::string opsj = "[";
    for (size_t i = 0; i < ops.size(); ++i)
      opsj += (i ? "," : "") + std::to_string(ops[i]);
    opsj += "]";
    auto body = [&]()
    {
      std::string rs = "[";
      for (size_t i = 0; i < ops.size(); ++i)
      {
        bool ret; std::vector<u8_t> out;
        do_op(ops[i], ret, out);
        Ev one("r");
        one.i("op", ops[i]).i("ret", ret).b("out", out).i("inst_null", wv_probe::inst_null()).i("live", wv_probe::live());
        // reuse the serializer: strip the event wrapper
        std::string tmp;
        {
          char *buf = NULL; size_t len = 0;
          FILE *m = open_memstream(&buf, &len);
          one.emit(m);
          fclose(m);
          tmp.assign(buf, len);
          free(buf);
        }
        while (!tmp.empty() && tmp.back() == '\n') tmp.pop_back();
        rs += (i ? "," : "") + tmp;
      }
      rs += "]";
      Ev("hist").i("id", id).raw("ops", opsj).raw("results", rs).str("how", "ok").emit(wv_out); };
    int how = n_abnormal >= 6 ? 3 : wv_guarded(body, 25, &detail);
    if (how)
    {
      Ev("hist").i("id", id).raw("ops", opsj).raw("results", "[]").str("how", n_abnormal >= 6 ? "skipped" : wv_how[how]).emit(wv_out);
      ++n_abnormal;
    }
    ++id;
  }
  std::string cmd = "rm -rf " + fx.dir;
  if (system(cmd.c_str()))
    return 3;
  return 0;
}
