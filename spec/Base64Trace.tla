----------------------------- MODULE Base64Trace -----------------------------
(***************************************************************************)
(* C16: recorded calls of the real Base64 encoder, decoder, key validator  *)
(* and key printer against RFC 4648 (Base64.tla).  Buffers are recorded    *)
(* whole, with a 0xAA canary fill, so "writes exactly n bytes" is checked. *)
(***************************************************************************)
EXTENDS Naturals, Sequences, TLC, Json, IOUtils, Bytes
LOCAL B == INSTANCE Base64
Events == ndJsonDeserialize(IOEnv.TRACE)
VARIABLES l, nbad

Canary(buf, from) == \A i \in (from + 1)..Len(buf) : buf[i] = 170
Why(ev) ==
  IF ev.e = "encode" THEN
    LET want == B!Encode(ev.in)  n == Len(want) IN
    IF Take(ev.buf, n) # want THEN "encoding differs from RFC 4648"
    ELSE IF ev.buf[n + 1] # 0 THEN "no terminating NUL after the encoding"
    ELSE IF ~Canary(ev.buf, n + 1) THEN "encoder wrote beyond the terminating NUL"
    ELSE IF B!Decode(want) # ev.in THEN "specification self-check: Decode(Encode(x)) # x"
    ELSE "ok"
  ELSE IF ev.e = "decode" THEN
    IF ~B!WellFormed(ev.s) THEN "driver error: decoder input not well-formed"
    ELSE LET want == B!Decode(ev.s)  n == Len(want) IN
         IF Take(ev.buf, n) # want THEN "decoding differs from RFC 4648"
         ELSE IF ~Canary(ev.buf, n) THEN "decoder wrote more bytes than the string encodes"
         ELSE "ok"
  ELSE IF ev.e = "valid" THEN
    LET kv == B!KeyValid(ev.s) IN
    IF kv # (ev.absvalid = 1) THEN "generator self-check: abstract and concrete KeyValid disagree"
    ELSE IF ev.res = 1 /\ ~kv THEN "validator accepted a string that is not a 24-character encoding of 16 bytes"
    ELSE IF ev.res = 0 /\ kv /\ B!Canonical(ev.s) THEN "validator rejected a canonical encoding of a 16-byte key"
    ELSE IF ev.res = 1 /\ Take(ev.buf, 16) # B!Decode(ev.s) THEN "accepted key decodes to the wrong bytes"
    ELSE IF ev.res = 1 /\ ~Canary(ev.buf, 16) THEN "accepted key decodes to more than 16 bytes"
    ELSE "ok"
  ELSE IF ev.e = "printkey" THEN
    IF ev.printed # B!Encode(ev.key) THEN "printed key is not the RFC 4648 encoding of the key"
    ELSE IF ev.valid # 1 THEN "printed key is rejected by the validator"
    ELSE IF Take(ev.buf, 16) # ev.key \/ ~Canary(ev.buf, 16) THEN "printed key does not decode back to the key"
    ELSE "ok"
  ELSE "unknown event"

Init == l = 1 /\ nbad = 0
Next == /\ l <= Len(Events)
        /\ LET ev == Events[l]  w == Why(ev)
           IN /\ IF w = "ok" THEN TRUE ELSE PrintT(<<"BAD", l, ev.id, w>>)
              /\ nbad' = nbad + (IF w = "ok" THEN 0 ELSE 1)
        /\ l' = l + 1
Finished == (l = Len(Events) + 1) => PrintT(<<"DONE", Len(Events), nbad>>)
Spec == Init /\ [][Next]_<<l, nbad>>
=============================================================================
