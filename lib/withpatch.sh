#!/bin/bash
# usage: lib/withpatch.sh [-R] <patchfile|commit> -- <command...>   apply a change to /repo, run, undo.
rev=""; if [ "$1" = "-R" ]; then rev="-R"; shift; fi
src="$1"; shift; shift
cd /repo || exit 2
if [ -n "$(git status --porcelain --untracked-files=no)" ]; then echo "repo dirty"; exit 2; fi
if [ -f "$src" ]; then git apply $rev "$src" || exit 2; else git show "$src" | git apply $rev || exit 2; fi
cd /verif; "$@"; rc=$?
git -C /repo checkout -- . ; git -C /repo clean -fdq -- kernel valget main.cpp 2>/dev/null
exit $rc
