CONSTANTS T = 2  N = 40  S = 32  Dir = "enc"  EofPeek = TRUE  Pad = 0
  Gate = TRUE  NotifyReady = TRUE  NotifyUpdate = TRUE  WaitLoop = FALSE  ReadyTest = TRUE  Spurious = TRUE  Unbounded = FALSE
  Loads <- MCLoads  DecPad <- MCDecPad
SPECIFICATION Spec
INVARIANTS TypeOK Exclusive NoUnderflow InOrder OutPrefix OutExact Quiescent LockDiscipline

