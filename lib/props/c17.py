"""C17 - command line: no crash on any option vector; exit 0 iff the operation succeeded."""
import concurrent.futures as cf, json, os, re, shutil, subprocess, tempfile
import wv
PID = "C17"
K = "ABEiM0RVZneImaq7zN3u/w=="
W = "AAAAAAAAAAAAAAAAAAAAAA=="
LONGDIR = "L" * 180
D122 = "M" * 110      # D122 + "/" + 11-character file name = 122 characters
P122 = D122 + "/f2345678.bi"
P123 = D122 + "/f2345678.bin"
EXPAND = {"e": ["-e"], "d": ["-d"], "v": ["-v"], "V": ["-V"], "h": ["-h"], "le": ["--encode"], "ld": ["--decode"], "lv": ["--verify"],
          "en": ["-en"], "dn": ["-dn"], "vn": ["-vn"], "n": ["-n"],
          "iF": ["-i", "F.bin"], "iE": ["--input", "E.wenc"], "iMissing": ["-i", "missing.bin"], "iLong": ["-i", LONGDIR + "/f.bin"], "iLen122": ["-i", P122], "iLen123": ["-i", P123], "iNoArg": ["-i"], "iProc": ["-i", "/proc/version"],
          "iBadC": ["-i", "BadC.wenc"], "iBadH": ["-i", "BadH.wenc"], "iTam": ["-i", "Tam.wenc"], "iEmpty": ["-i", "Empty.bin"],
          "oO": ["-o", "O.out"], "oFull": ["-o", "/dev/full"], "oLong": ["-o", "Q" * 300], "oBad": ["-o", "nodir/x.out"],
          "kK": ["-k", K], "kW": ["--key", W], "kShort": ["-k", K[:-1]], "kBadChar": ["-k", K[:20] + "!" + K[21:]],
          "kNoPad": ["-k", K[:22] + "AA"], "kOnePad": ["-k", K[:22] + "A="], "kLong": ["-k", K[:22] + "AAAA=="], "kHigh": ["-k", K[:5] + "\udcc1" + K[6:]], "kMidPad": ["-k", K[:10] + "=" + K[11:]], "kPadChar": ["-k", K[:22] + "=A"],
          "c0": ["--cmode", "0"], "c4": ["--cmode", "4"], "leAbbr": ["--enc"], "kAbbr": ["--ke", K], "cAbbr": ["--cmod", "3"], "cWrapNeg": ["--cmode", "-18446744073709551615"], "c2p32p1": ["--cmode", "4294967297"], "c2p64p1": ["--cmode", "18446744073709551617"], "cNeg": ["--cmode", "-1"], "cHuge": ["--cmode", "99999999999999999999"], "hHuge": ["--hmode", "4294967296"], "cEmpty": ["--cmode", ""], "h0": ["--hmode", "0"], "h2": ["--hmode", "2"], "hNeg": ["--hmode", "-1"],
          "iEmptyArg": ["-i", ""], "oEmptyArg": ["-o", ""], "kEmpty": ["-k", ""],
          "c2": ["--cmode", "2"], "c5": ["--cmode", "5"], "c100": ["--cmode", "100"], "c256": ["--cmode", "256"], "c260": ["--cmode", "260"], "cabc": ["--cmode", "abc"],
          "h1": ["--hmode", "1"], "h3": ["--hmode", "3"], "h256": ["--hmode", "256"], "x": ["-x"], "stray": ["stray"]}
# what counts as a diagnostic: any of the usual words, case-insensitively (the wording is the maintainer's business)
DIAG = re.compile(rb"error|wrong|invalid|too short|too long|not match|not found|not complete|requires an argument|unrecognized|unknown|fail|cannot|could not|can't|missing|no such|usage|only one|must |mismatch|corrupt|bad |denied|illegal|unsupported|not valid|not a valid|reject|expected|require|incomplete|truncat|empty|abort|unable", re.I)
PLAIN = bytes((i * 37 + 11) % 256 for i in range(100))


def binary(production=False):
    if production:      # the shipped constants (16 MiB chunks, 32 MiB hash window)
        return wv.build("Wencry_prod", ["hash", "aes", "pipe", "kernel", "b64", "cli", "main"], [], [])
    return wv.build("Wencry", ["hash", "aes", "pipe", "kernel", "b64", "cli", "main"], [], ["-DWENCRY_VERIF_HBUF_SZ=4", "-DWENCRY_VERIF_BUF_SZ=4"])


def run_bin(exe, argv, cwd, timeout=30):
    env = dict(os.environ); env.update(wv.ASAN_ENV)
    try:
        r = subprocess.run([exe] + argv, cwd=cwd, stdout=subprocess.PIPE, stderr=subprocess.STDOUT, timeout=timeout, env=env, stdin=subprocess.DEVNULL)
        return r.returncode, r.stdout, False
    except subprocess.TimeoutExpired as e:
        return 0, e.stdout or b"", True


def make_template(exe, root):
    t = os.path.join(root, "template"); os.makedirs(os.path.join(t, LONGDIR)); os.makedirs(os.path.join(t, D122))
    assert len(P122) == 122 and len(P123) == 123
    for p in ("F.bin", LONGDIR + "/f.bin", P122, P123):
        open(os.path.join(t, p), "wb").write(PLAIN)
    rc, out, to = run_bin(exe, ["-e", "-i", "F.bin", "-o", "E.wenc", "-k", K, "--cmode", "1"], t)
    if rc != 0 or not os.path.exists(os.path.join(t, "E.wenc")):
        raise wv.Infra("cannot create the fixture E.wenc with the binary under test (rc=%s): %s" % (rc, out[-600:]))
    e = open(os.path.join(t, "E.wenc"), "rb").read()
    open(os.path.join(t, "BadC.wenc"), "wb").write(e[:8] + b"\x05" + e[9:])        # first cipher-mode value out of range
    open(os.path.join(t, "BadH.wenc"), "wb").write(e[:9] + b"\x03" + e[10:])       # first hash-mode value out of range
    open(os.path.join(t, "Tam.wenc"), "wb").write(e[:-1] + bytes([e[-1] ^ 1]))
    open(os.path.join(t, "Empty.bin"), "wb").write(b"")
    open(os.path.join(t, "O.out"), "wb").write(b"Z" * 3000)          # the output of -o already exists and is longer than anything written: it must be replaced, not patched
    return t


def listing(d):
    out = []
    for base, _, fs in os.walk(d):
        for f in fs:
            out.append(os.path.relpath(os.path.join(base, f), d))
    return sorted(out)


def one_vector(exe, template, root, idx, vec):
    d = os.path.join(root, "v%05d" % idx)
    shutil.copytree(template, d)
    argv = []
    for t in vec["tokens"]:
        argv += EXPAND[t]
    before = listing(d)
    rc, out, to = run_bin(exe, argv, d)
    after = listing(d)
    toks = vec["tokens"]
    if b"AddressSanitizer" in out or b"runtime error:" in out or b"LeakSanitizer" in out:
        rc = -99          # a sanitizer report is a crash, whatever the exit status
    ev = {"e": "cli", "id": idx, "tokens": toks, "class": vec["class"], "argv": argv, "rc": rc if rc >= 0 else 0, "sig": -rc if rc < 0 else 0,
          "timeout": 1 if to else 0, "diag": 1 if DIAG.search(out) else 0, "effect": 2, "effect_note": "", "created": [f for f in after if f not in before], "out_tail": out[-300:].decode(errors="replace")}
    # the effect of the operation, verified independently (only meaningful when it exited 0)
    if rc == 0 and not to:
        mode = None
        for t in toks:
            if t in ("e", "le", "en", "leAbbr"): mode = mode or "e"
            elif t in ("d", "ld", "dn"): mode = mode or "d"
            elif t in ("v", "lv", "vn"): mode = mode or "v"
            elif t in ("V", "h"): mode = mode or t
        ok, note = True, ""
        if mode == "e":
            inp = None; outp = None; key = None
            for t in toks:
                if t in ("iF", "iE", "iLong", "iProc", "iLen122", "iLen123", "iBadC", "iBadH", "iTam", "iEmpty"): inp = EXPAND[t][1]
                if t == "oO": outp = "O.out"
                if t in ("kK", "kW", "kAbbr"): key = EXPAND[t][1]
            if outp is None and inp is not None:
                outp = inp + ".wenc"
            if key is None:
                m = re.search(rb"Key is:\s*(\S{24})", out)
                key = m.group(1).decode() if m else None
            if inp is None or key is None or not os.path.exists(os.path.join(d, outp)):
                ok, note = False, "no output file / no key printed"
            else:
                r1, o1, _ = run_bin(exe, ["-v", "-i", outp, "-k", key, "-n"], d)
                r2, o2, _ = run_bin(exe, ["-d", "-i", outp, "-o", "back.bin", "-k", key, "-n"], d)
                src = open(os.path.join(template, inp), "rb").read()   # the ORIGINAL input (os.path.join keeps an absolute inp); a run that altered its input must not pass
                if not os.path.isabs(inp) and open(os.path.join(d, inp), "rb").read() != src:
                    ok, note = False, "the input file was modified"
                back = open(os.path.join(d, "back.bin"), "rb").read() if os.path.exists(os.path.join(d, "back.bin")) else None
                if ok and (r1 != 0 or r2 != 0 or back != src):
                    ok, note = False, "output does not verify/decrypt back to the input with the key (verify rc=%s decrypt rc=%s)" % (r1, r2)
        elif mode == "d":
            p = os.path.join(d, "O.out")
            if not os.path.exists(p) or open(p, "rb").read() != PLAIN:
                ok, note = False, "decrypted output is not the original plaintext"
        elif mode == "v":
            if [f for f in after if f not in before and f != "O.out"]:
                ok, note = False, "verify created files: %s" % [f for f in after if f not in before]
            elif "oO" in toks and os.path.exists(os.path.join(d, "O.out")) and os.path.getsize(os.path.join(d, "O.out")) > 0:
                ok, note = False, "verify wrote %d bytes to the file given with -o" % os.path.getsize(os.path.join(d, "O.out"))
            elif "oO" not in toks and open(os.path.join(d, "O.out"), "rb").read() != b"Z" * 3000:
                ok, note = False, "verify changed a file it was not given"
        ev["effect"], ev["effect_note"] = (1 if ok else 0), note
    shutil.rmtree(d, ignore_errors=True)
    return ev


def pairwise_cover(allv, have, budget=150):
    """Greedy selection of vectors (at most `budget`) towards every ORDERED pair of tokens (a somewhere before b) that occurs in any
    generated vector occurs in a selected one: option-order and repeated-option effects are pair effects."""
    def pairs(toks):
        return {(toks[i], toks[j]) for i in range(len(toks)) for j in range(i + 1, len(toks))}
    cand = [(v, pairs(v["tokens"])) for v in allv]
    need = set().union(*[p for _, p in cand]) if cand else set()
    for v, p in cand:
        if tuple(v["tokens"]) in have:
            need -= p
    chosen = []
    cand = [c for c in cand if tuple(c[0]["tokens"]) not in have]
    cand.sort(key=lambda c: (-len(c[1]), c[0]["tokens"]))
    while need and len(chosen) < budget:
        best = max(cand, key=lambda c: len(c[1] & need))
        gain = best[1] & need
        if not gain:
            break
        chosen.append(best[0]); need -= gain
    return chosen


def run(tier, replay):
    res = wv.Result(PID, "model_checking", tier)
    exe = binary()
    d = os.path.join(wv.RUN, PID); os.makedirs(d, exist_ok=True)
    out = os.path.join(d, "vectors.json")
    r = wv.tlc("CLIVectors", env={"OUT": out}, workers=1, timeout=600)
    if "VECTORS" not in r["out"] or not os.path.exists(out):
        raise wv.Infra("CLIVectors.tla failed:\n" + r["out"][-2500:])
    allv = json.load(open(out))
    res.cov["vectors_from_spec"] = len(allv)
    res.add("states", len(allv)); res.add("transitions", len(allv))
    if replay:
        vecs = [json.load(open(replay))["replay"]["vector"]]
    else:
        rng = wv.rng("c17")
        okv = [v for v in allv if v["class"] != "FAIL"]
        failv = [v for v in allv if v["class"] == "FAIL"]
        if tier == "quick":
            core = [v for v in allv if v.get("core")]          # one fault at a time around the three principal command lines
            vecs = core + pairwise_cover(allv, set(tuple(v["tokens"]) for v in core))
            have = set(tuple(v["tokens"]) for v in vecs)
            vecs += [v for v in rng.sample(okv, min(len(okv), 100)) + rng.sample(failv, 100) if tuple(v["tokens"]) not in have]
            res.cov["quick_selection"] = {"core_single_fault_vectors": len(core), "total": len(vecs)}
            # the pinned defects' vectors are always included
            must = [["e", "iLen122"], ["e", "iLen123"], ["en", "iLen123", "kK"], ["e", "iProc"], ["e", "iProc", "oO"], ["en", "iProc"], ["d", "iE", "oO"], ["v", "iE"], ["d", "iE", "kK"], ["e", "iLong"], ["e", "iF", "oO", "c256"], ["e", "iF", "oO", "kNoPad"], ["e", "iF", "oO", "kOnePad"], ["e", "iF", "oO", "kHigh"], ["d", "iE", "oO", "kHigh"], ["e", "iF"], ["d"], ["v"], ["e"]]
            have = set(tuple(v["tokens"]) for v in vecs)
            vecs += [v for v in allv if v["tokens"] in must and tuple(v["tokens"]) not in have]
        else:
            vecs = allv
    root = tempfile.mkdtemp(prefix="wvcli.", dir="/var/tmp")
    try:
        try:
            template = make_template(exe, root)
        except wv.Infra as e:
            # the plainest well-formed command line (-e -i F -o E -k K --cmode 1) does not succeed: that is the property, not the machinery
            res.violation("the fixture command line `Wencry -e -i F.bin -o E.wenc -k <key> --cmode 1` failed or crashed: %s" % str(e)[-500:], {"vector": {"tokens": ["e", "iF", "oO", "kK"], "class": "OK"}})
            return res.finish()
        with cf.ThreadPoolExecutor(14) as ex:
            events = list(ex.map(lambda iv: one_vector(exe, template, root, iv[0], iv[1]), enumerate(vecs)))
        if tier == "thorough" and not replay:
            # the same binary as shipped (no chunk/refill overrides): the well-formed vectors of every mode and a few failing ones
            exe2 = binary(production=True)
            root2 = os.path.join(root, "prod"); os.makedirs(root2)
            template2 = make_template(exe2, root2)
            sel = [v for v in allv if v["class"] == "OK" and len(v["tokens"]) <= 4][:60] + [v for v in allv if v["class"] == "FAIL"][:40]
            with cf.ThreadPoolExecutor(6) as ex:
                ev2 = list(ex.map(lambda iv: one_vector(exe2, template2, root2, len(events) + iv[0], iv[1]), enumerate(sel)))
            events += ev2
            res.cov["vectors_run_with_production_constants"] = len(ev2)
    finally:
        shutil.rmtree(root, ignore_errors=True)
    bad, st = wv.validate_trace("CLITrace", events, name=PID + "/tlc")
    classes = {}
    for e in events:
        classes[e["class"]] = classes.get(e["class"], 0) + 1
    res.cov.update({"traces_validated_against_impl": len(events), "evaluations": len(events), "distinct_nontrivial": len(set(tuple(e["tokens"]) for e in events if len(e["tokens"]) >= 2)),
                    "classes_executed": classes,
                    "rule": "CLI.tla assigns every token sequence its outcome class; CLIVectors.tla (TLC) enumerates the well-formed base vectors of every mode with all single-token replacements/insertions/deletions and permutations plus every vector of length <= 2 (all of them in the thorough tier) and checks design-level ASSUMEs (no/two modes, missing key, every malformed value fail). The driver runs the real Wencry binary built from the working tree (ASan+UBSan) in a scratch directory per vector (quick: every single-token replacement / insertion / deletion of the three principal command lines, 150 vectors chosen greedily to cover ordered token pairs, a seeded sample of 200 and the vectors of the repaired defects; thorough: all), records exit status / signal / diagnostic / files created, and verifies the effect of successful operations independently (the output verifies and decrypts back with the given or printed key; -d restores the plaintext; -v creates nothing). TLC judges every run. Non-trivial = at least two tokens.",
                    "validator_states": st["states"], "exhaustive": tier == "thorough"})
    for e in events[:: max(1, len(events) // 4)][:4]:
        res.sample({k: e[k] for k in ("tokens", "class", "argv", "rc", "sig", "diag", "effect")})
    for e, why in bad:
        res.violation("Wencry %s -> rc=%s sig=%s: %s | %s" % (" ".join(e["argv"])[:200], e["rc"], e["sig"], why[:300], e["out_tail"][-160:].replace("\n", " ")), {"vector": {"tokens": e["tokens"], "class": e["class"]}, "argv": e["argv"]})
    res.assumptions += ["interactive prompt mode excluded (as the property states)", "token classes stand for their values: one representative string per class",
                        "the binary is built with the verification chunk/refill overrides (4 blocks / 4 units) to keep 600+ ASan runs fast"]
    return res.finish()
