------------------------------ MODULE HashTrace ------------------------------
(***************************************************************************)
(* C07: every recorded digest computed by the real code must equal the     *)
(* digest the specification assigns to the same bytes.                     *)
(* Event "hash":    out = Hash(alg, prefix \o msg)                         *)
(* Event "bighash": out = Out(Iterate(Compress, chain, PadTail(tail, n)))  *)
(*   - a message too long for TLC to hash: the chaining value before the   *)
(*     tail is taken from the implementation, the whole final-block path   *)
(*     (0x80, zero fill, 64-bit length, one or two compressions) is the    *)
(*     specification's.                                                    *)
(***************************************************************************)
EXTENDS Naturals, Sequences, TLC, Json, IOUtils, Bytes
LOCAL H  == INSTANCE HMAC
LOCAL MDm == INSTANCE MD
LOCAL S1 == INSTANCE SHA1
LOCAL M5 == INSTANCE MD5
LOCAL S2 == INSTANCE SHA256

Events == ndJsonDeserialize(IOEnv.TRACE)
VARIABLES l, nbad

Words(c) == [i \in 1..(Len(c) \div 2) |-> << c[2 * i - 1], c[2 * i] >>]
BigDigest(alg, chain, tail, nl) ==
  CASE alg = 0 -> S1!Out(MDm!Iterate(S1!Compress, Words(chain), MDm!PadTail(tail, nl, TRUE)))
    [] alg = 1 -> M5!Out(MDm!Iterate(M5!Compress, Words(chain), MDm!PadTail(tail, nl, FALSE)))
    [] alg = 2 -> S2!Out(MDm!Iterate(S2!Compress, Words(chain), MDm!PadTail(tail, nl, TRUE)))

Expected(ev) == IF ev.e = "hash" THEN H!Hash(ev.alg, ev.prefix \o ev.msg)
                ELSE BigDigest(ev.alg, ev.chain, ev.tail, ev.nl)
EventOK(ev) == ev.e \in {"hash", "bighash"} /\ ev.out = Expected(ev)

Init == l = 1 /\ nbad = 0
Next == /\ l <= Len(Events)
        /\ LET ev == Events[l]
               ok == EventOK(ev)
           IN /\ IF ok THEN TRUE ELSE PrintT(<<"BAD", l, ev.id, "digest differs from the specification", Expected(ev)>>)
              /\ nbad' = nbad + (IF ok THEN 0 ELSE 1)
        /\ l' = l + 1
Finished == (l = Len(Events) + 1) => PrintT(<<"DONE", Len(Events), nbad>>)
Spec == Init /\ [][Next]_<<l, nbad>>
=============================================================================
