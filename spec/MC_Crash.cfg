CONSTANTS Ts = {1, 2}  NBs = {1, 2, 3, 5}  HMs = {0, 1, 2}  Plan = "code"  ChunkBlocks = 2
SPECIFICATION Spec
INVARIANTS CrashSafe FinalAccepted WriteOrder
CHECK_DEADLOCK FALSE
