---- MODULE MC_HashBuffer_TTrace_1790446820 ----
EXTENDS Sequences, TLCExt, Toolbox, Naturals, TLC, MC_HashBuffer

_expression ==
    LET MC_HashBuffer_TEExpression == INSTANCE MC_HashBuffer_TEExpression
    IN MC_HashBuffer_TEExpression!expression
----

_trace ==
    LET MC_HashBuffer_TETrace == INSTANCE MC_HashBuffer_TETrace
    IN MC_HashBuffer_TETrace!trace
----

_inv ==
    ~(
        TLCGet("level") = Len(_TETrace)
        /\
        tail = (0)
        /\
        hasPrefix = (TRUE)
        /\
        units = (<<<<1001, 1002, 1003, 1004, 1005, 1006, 1007, 1008, 1009, 1010, 1011, 1012, 1013, 1014, 1015, 1016, 1017, 1018, 1019, 1020, 1021, 1022, 1023, 1024, 1025, 1026, 1027, 1028, 1029, 1030, 1031, 1032, 1033, 1034, 1035, 1036, 1037, 1038, 1039, 1040, 1041, 1042, 1043, 1044, 1045, 1046, 1047, 1048, 1049, 1050, 1051, 1052, 1053, 1054, 1055, 1056, 1057, 1058, 1059, 1060, 1061, 1062, 1063, 1064>>, <<1, 2, 3, 4, 5, 6, 7, 8, 9, 10, 11, 12, 13, 14, 15, 16, 17, 18, 19, 20, 21, 22, 23, 24, 25, 26, 27, 28, 29, 30, 31, 32, 33, 34, 35, 36, 37, 38, 39, 40, 41, 42, 43, 44, 45, 46, 47, 48, 49, 50, 51, 52, 53, 54, 55, 56, 57, 58, 59, 60, 61, 62, 63, 64>>, <<65, 66, 67, 68, 69, 70, 71, 72, 73, 74, 75, 76, 77, 78, 79, 80, 81, 82, 83, 84, 85, 86, 87, 88, 89, 90, 91, 92, 93, 94, 95, 96, 97, 98, 99, 100, 101, 102, 103, 104, 105, 106, 107, 108, 109, 110, 111, 112, 113, 114, 115, 116, 117, 118, 119, 120, 121, 122, 123, 124, 125, 126, 127, 128>>, <<129, 130, 131, 132, 133, 134, 135, 136, 137, 138, 139, 140, 141, 142, 143, 144, 145, 146, 147, 148, 149, 150, 151, 152, 153, 154, 155, 156, 157, 158, 159, 160, 161, 162, 163, 164, 165, 166, 167, 168, 169, 170, 171, 172, 173, 174, 175, 176, 177, 178, 179, 180, 181, 182, 183, 184, 185, 186, 187, 188, 189, 190, 191, 192>>, <<193, 194>>>>)
        /\
        hasExtra = (FALSE)
        /\
        n = (194)
        /\
        lenField = (2)
        /\
        total = (1)
        /\
        pc = ("done")
        /\
        now = (2)
        /\
        counted = (2)
        /\
        hbuf = (2)
        /\
        fpos = (194)
        /\
        base = (128)
    )
----

_init ==
    /\ hasExtra = _TETrace[1].hasExtra
    /\ hbuf = _TETrace[1].hbuf
    /\ hasPrefix = _TETrace[1].hasPrefix
    /\ n = _TETrace[1].n
    /\ counted = _TETrace[1].counted
    /\ now = _TETrace[1].now
    /\ tail = _TETrace[1].tail
    /\ pc = _TETrace[1].pc
    /\ base = _TETrace[1].base
    /\ fpos = _TETrace[1].fpos
    /\ total = _TETrace[1].total
    /\ lenField = _TETrace[1].lenField
    /\ units = _TETrace[1].units
----

_next ==
    /\ \E i,j \in DOMAIN _TETrace:
        /\ \/ /\ j = i + 1
              /\ i = TLCGet("level")
        /\ hasExtra  = _TETrace[i].hasExtra
        /\ hasExtra' = _TETrace[j].hasExtra
        /\ hbuf  = _TETrace[i].hbuf
        /\ hbuf' = _TETrace[j].hbuf
        /\ hasPrefix  = _TETrace[i].hasPrefix
        /\ hasPrefix' = _TETrace[j].hasPrefix
        /\ n  = _TETrace[i].n
        /\ n' = _TETrace[j].n
        /\ counted  = _TETrace[i].counted
        /\ counted' = _TETrace[j].counted
        /\ now  = _TETrace[i].now
        /\ now' = _TETrace[j].now
        /\ tail  = _TETrace[i].tail
        /\ tail' = _TETrace[j].tail
        /\ pc  = _TETrace[i].pc
        /\ pc' = _TETrace[j].pc
        /\ base  = _TETrace[i].base
        /\ base' = _TETrace[j].base
        /\ fpos  = _TETrace[i].fpos
        /\ fpos' = _TETrace[j].fpos
        /\ total  = _TETrace[i].total
        /\ total' = _TETrace[j].total
        /\ lenField  = _TETrace[i].lenField
        /\ lenField' = _TETrace[j].lenField
        /\ units  = _TETrace[i].units
        /\ units' = _TETrace[j].units

\* Uncomment the ASSUME below to write the states of the error trace
\* to the given file in Json format. Note that you can pass any tuple
\* to `JsonSerialize`. For example, a sub-sequence of _TETrace.
    \* ASSUME
    \*     LET J == INSTANCE Json
    \*         IN J!JsonSerialize("MC_HashBuffer_TTrace_1790446820.json", _TETrace)

=============================================================================

 Note that you can extract this module `MC_HashBuffer_TEExpression`
  to a dedicated file to reuse `expression` (the module in the 
  dedicated `MC_HashBuffer_TEExpression.tla` file takes precedence 
  over the module `MC_HashBuffer_TEExpression` below).

---- MODULE MC_HashBuffer_TEExpression ----
EXTENDS Sequences, TLCExt, Toolbox, Naturals, TLC, MC_HashBuffer

expression == 
    [
        \* To hide variables of the `MC_HashBuffer` spec from the error trace,
        \* remove the variables below.  The trace will be written in the order
        \* of the fields of this record.
        hasExtra |-> hasExtra
        ,hbuf |-> hbuf
        ,hasPrefix |-> hasPrefix
        ,n |-> n
        ,counted |-> counted
        ,now |-> now
        ,tail |-> tail
        ,pc |-> pc
        ,base |-> base
        ,fpos |-> fpos
        ,total |-> total
        ,lenField |-> lenField
        ,units |-> units
        
        \* Put additional constant-, state-, and action-level expressions here:
        \* ,_stateNumber |-> _TEPosition
        \* ,_hasExtraUnchanged |-> hasExtra = hasExtra'
        
        \* Format the `hasExtra` variable as Json value.
        \* ,_hasExtraJson |->
        \*     LET J == INSTANCE Json
        \*     IN J!ToJson(hasExtra)
        
        \* Lastly, you may build expressions over arbitrary sets of states by
        \* leveraging the _TETrace operator.  For example, this is how to
        \* count the number of times a spec variable changed up to the current
        \* state in the trace.
        \* ,_hasExtraModCount |->
        \*     LET F[s \in DOMAIN _TETrace] ==
        \*         IF s = 1 THEN 0
        \*         ELSE IF _TETrace[s].hasExtra # _TETrace[s-1].hasExtra
        \*             THEN 1 + F[s-1] ELSE F[s-1]
        \*     IN F[_TEPosition - 1]
    ]

=============================================================================



Parsing and semantic processing can take forever if the trace below is long.
 In this case, it is advised to uncomment the module below to deserialize the
 trace from a generated binary file.

\*
\*---- MODULE MC_HashBuffer_TETrace ----
\*EXTENDS IOUtils, TLC, MC_HashBuffer
\*
\*trace == IODeserialize("MC_HashBuffer_TTrace_1790446820.bin", TRUE)
\*
\*=============================================================================
\*

---- MODULE MC_HashBuffer_TETrace ----
EXTENDS TLC, MC_HashBuffer

trace == 
    <<
    ([tail |-> 0,hasPrefix |-> TRUE,units |-> <<>>,hasExtra |-> TRUE,n |-> 194,lenField |-> 0,total |-> 0,pc |-> "ctor",now |-> 0,counted |-> 0,hbuf |-> 2,fpos |-> 0,base |-> 0]),
    ([tail |-> 0,hasPrefix |-> TRUE,units |-> <<>>,hasExtra |-> TRUE,n |-> 194,lenField |-> 0,total |-> 2,pc |-> "loop",now |-> 0,counted |-> 0,hbuf |-> 2,fpos |-> 128,base |-> 0]),
    ([tail |-> 0,hasPrefix |-> TRUE,units |-> <<<<1001, 1002, 1003, 1004, 1005, 1006, 1007, 1008, 1009, 1010, 1011, 1012, 1013, 1014, 1015, 1016, 1017, 1018, 1019, 1020, 1021, 1022, 1023, 1024, 1025, 1026, 1027, 1028, 1029, 1030, 1031, 1032, 1033, 1034, 1035, 1036, 1037, 1038, 1039, 1040, 1041, 1042, 1043, 1044, 1045, 1046, 1047, 1048, 1049, 1050, 1051, 1052, 1053, 1054, 1055, 1056, 1057, 1058, 1059, 1060, 1061, 1062, 1063, 1064>>>>,hasExtra |-> FALSE,n |-> 194,lenField |-> 0,total |-> 2,pc |-> "loop",now |-> 0,counted |-> 64,hbuf |-> 2,fpos |-> 128,base |-> 0]),
    ([tail |-> 0,hasPrefix |-> TRUE,units |-> <<<<1001, 1002, 1003, 1004, 1005, 1006, 1007, 1008, 1009, 1010, 1011, 1012, 1013, 1014, 1015, 1016, 1017, 1018, 1019, 1020, 1021, 1022, 1023, 1024, 1025, 1026, 1027, 1028, 1029, 1030, 1031, 1032, 1033, 1034, 1035, 1036, 1037, 1038, 1039, 1040, 1041, 1042, 1043, 1044, 1045, 1046, 1047, 1048, 1049, 1050, 1051, 1052, 1053, 1054, 1055, 1056, 1057, 1058, 1059, 1060, 1061, 1062, 1063, 1064>>, <<1, 2, 3, 4, 5, 6, 7, 8, 9, 10, 11, 12, 13, 14, 15, 16, 17, 18, 19, 20, 21, 22, 23, 24, 25, 26, 27, 28, 29, 30, 31, 32, 33, 34, 35, 36, 37, 38, 39, 40, 41, 42, 43, 44, 45, 46, 47, 48, 49, 50, 51, 52, 53, 54, 55, 56, 57, 58, 59, 60, 61, 62, 63, 64>>>>,hasExtra |-> FALSE,n |-> 194,lenField |-> 0,total |-> 2,pc |-> "loop",now |-> 1,counted |-> 128,hbuf |-> 2,fpos |-> 128,base |-> 0]),
    ([tail |-> 0,hasPrefix |-> TRUE,units |-> <<<<1001, 1002, 1003, 1004, 1005, 1006, 1007, 1008, 1009, 1010, 1011, 1012, 1013, 1014, 1015, 1016, 1017, 1018, 1019, 1020, 1021, 1022, 1023, 1024, 1025, 1026, 1027, 1028, 1029, 1030, 1031, 1032, 1033, 1034, 1035, 1036, 1037, 1038, 1039, 1040, 1041, 1042, 1043, 1044, 1045, 1046, 1047, 1048, 1049, 1050, 1051, 1052, 1053, 1054, 1055, 1056, 1057, 1058, 1059, 1060, 1061, 1062, 1063, 1064>>, <<1, 2, 3, 4, 5, 6, 7, 8, 9, 10, 11, 12, 13, 14, 15, 16, 17, 18, 19, 20, 21, 22, 23, 24, 25, 26, 27, 28, 29, 30, 31, 32, 33, 34, 35, 36, 37, 38, 39, 40, 41, 42, 43, 44, 45, 46, 47, 48, 49, 50, 51, 52, 53, 54, 55, 56, 57, 58, 59, 60, 61, 62, 63, 64>>, <<65, 66, 67, 68, 69, 70, 71, 72, 73, 74, 75, 76, 77, 78, 79, 80, 81, 82, 83, 84, 85, 86, 87, 88, 89, 90, 91, 92, 93, 94, 95, 96, 97, 98, 99, 100, 101, 102, 103, 104, 105, 106, 107, 108, 109, 110, 111, 112, 113, 114, 115, 116, 117, 118, 119, 120, 121, 122, 123, 124, 125, 126, 127, 128>>>>,hasExtra |-> FALSE,n |-> 194,lenField |-> 0,total |-> 2,pc |-> "loop",now |-> 2,counted |-> 192,hbuf |-> 2,fpos |-> 128,base |-> 0]),
    ([tail |-> 2,hasPrefix |-> TRUE,units |-> <<<<1001, 1002, 1003, 1004, 1005, 1006, 1007, 1008, 1009, 1010, 1011, 1012, 1013, 1014, 1015, 1016, 1017, 1018, 1019, 1020, 1021, 1022, 1023, 1024, 1025, 1026, 1027, 1028, 1029, 1030, 1031, 1032, 1033, 1034, 1035, 1036, 1037, 1038, 1039, 1040, 1041, 1042, 1043, 1044, 1045, 1046, 1047, 1048, 1049, 1050, 1051, 1052, 1053, 1054, 1055, 1056, 1057, 1058, 1059, 1060, 1061, 1062, 1063, 1064>>, <<1, 2, 3, 4, 5, 6, 7, 8, 9, 10, 11, 12, 13, 14, 15, 16, 17, 18, 19, 20, 21, 22, 23, 24, 25, 26, 27, 28, 29, 30, 31, 32, 33, 34, 35, 36, 37, 38, 39, 40, 41, 42, 43, 44, 45, 46, 47, 48, 49, 50, 51, 52, 53, 54, 55, 56, 57, 58, 59, 60, 61, 62, 63, 64>>, <<65, 66, 67, 68, 69, 70, 71, 72, 73, 74, 75, 76, 77, 78, 79, 80, 81, 82, 83, 84, 85, 86, 87, 88, 89, 90, 91, 92, 93, 94, 95, 96, 97, 98, 99, 100, 101, 102, 103, 104, 105, 106, 107, 108, 109, 110, 111, 112, 113, 114, 115, 116, 117, 118, 119, 120, 121, 122, 123, 124, 125, 126, 127, 128>>, <<129, 130, 131, 132, 133, 134, 135, 136, 137, 138, 139, 140, 141, 142, 143, 144, 145, 146, 147, 148, 149, 150, 151, 152, 153, 154, 155, 156, 157, 158, 159, 160, 161, 162, 163, 164, 165, 166, 167, 168, 169, 170, 171, 172, 173, 174, 175, 176, 177, 178, 179, 180, 181, 182, 183, 184, 185, 186, 187, 188, 189, 190, 191, 192>>>>,hasExtra |-> FALSE,n |-> 194,lenField |-> 0,total |-> 1,pc |-> "loop",now |-> 1,counted |-> 0,hbuf |-> 2,fpos |-> 194,base |-> 128]),
    ([tail |-> 0,hasPrefix |-> TRUE,units |-> <<<<1001, 1002, 1003, 1004, 1005, 1006, 1007, 1008, 1009, 1010, 1011, 1012, 1013, 1014, 1015, 1016, 1017, 1018, 1019, 1020, 1021, 1022, 1023, 1024, 1025, 1026, 1027, 1028, 1029, 1030, 1031, 1032, 1033, 1034, 1035, 1036, 1037, 1038, 1039, 1040, 1041, 1042, 1043, 1044, 1045, 1046, 1047, 1048, 1049, 1050, 1051, 1052, 1053, 1054, 1055, 1056, 1057, 1058, 1059, 1060, 1061, 1062, 1063, 1064>>, <<1, 2, 3, 4, 5, 6, 7, 8, 9, 10, 11, 12, 13, 14, 15, 16, 17, 18, 19, 20, 21, 22, 23, 24, 25, 26, 27, 28, 29, 30, 31, 32, 33, 34, 35, 36, 37, 38, 39, 40, 41, 42, 43, 44, 45, 46, 47, 48, 49, 50, 51, 52, 53, 54, 55, 56, 57, 58, 59, 60, 61, 62, 63, 64>>, <<65, 66, 67, 68, 69, 70, 71, 72, 73, 74, 75, 76, 77, 78, 79, 80, 81, 82, 83, 84, 85, 86, 87, 88, 89, 90, 91, 92, 93, 94, 95, 96, 97, 98, 99, 100, 101, 102, 103, 104, 105, 106, 107, 108, 109, 110, 111, 112, 113, 114, 115, 116, 117, 118, 119, 120, 121, 122, 123, 124, 125, 126, 127, 128>>, <<129, 130, 131, 132, 133, 134, 135, 136, 137, 138, 139, 140, 141, 142, 143, 144, 145, 146, 147, 148, 149, 150, 151, 152, 153, 154, 155, 156, 157, 158, 159, 160, 161, 162, 163, 164, 165, 166, 167, 168, 169, 170, 171, 172, 173, 174, 175, 176, 177, 178, 179, 180, 181, 182, 183, 184, 185, 186, 187, 188, 189, 190, 191, 192>>, <<193, 194>>>>,hasExtra |-> FALSE,n |-> 194,lenField |-> 2,total |-> 1,pc |-> "done",now |-> 2,counted |-> 2,hbuf |-> 2,fpos |-> 194,base |-> 128])
    >>
----


=============================================================================

---- CONFIG MC_HashBuffer_TTrace_1790446820 ----
CONSTANTS
    MaxN = 264
    HBufs = { 2 }
    LenBeforeExtra = TRUE
    CounterWrap = 256

INVARIANT
    _inv

CHECK_DEADLOCK
    \* CHECK_DEADLOCK off because of PROPERTY or INVARIANT above.
    FALSE

INIT
    _init

NEXT
    _next

CONSTANT
    _TETrace <- _trace

ALIAS
    _expression
=============================================================================
\* Generated on Sat Sep 26 18:20:23 UTC 2026