"""C13 - an interrupted encryption never leaves a file that verifies."""
import json
import wv
from props import filelevel as fl
PID = "C13"


def run(tier, replay):
    res = wv.Result(PID, "fault_enumeration", tier)
    wv.design_runs(res, [("Crash", "MC_Crash", True), ("Crash", "MC_Crash_neg_tagfirst", False), ("Crash", "MC_Crash_neg_prefilled", False)])
    if replay:
        events = json.load(open(replay))["replay"]["events"]
    else:
        if tier == "quick":
            jobs = [["crash", 1, 0, 1, 0, 1], ["crash", 2, 20, 2, 1, 1, "zt"], ["crash", 2, 40, 3, 2, 0, "zt"], ["crash", 2, 70, 4, 0, 1], ["crash", 1, 40, 0, 1, 0, "zt"], ["crash", 2, 70, 1, 2, 0],
                    ["crash", 1, 32, 1, 0, 1], ["crash", 2, 64, 2, 1, 0],
                    ["crash", 1, 40, 1, 0, 1, "zs"], ["crash", 2, 40, 2, 1, 0, "zx"], ["crash", 1, 20, 3, 2, 1, "zl"],
                    ["crash", 2, 300, 1, 0, 1],
                    ["crash", 4, 100, 2, 1, 1], ["crash", 4, 40, 3, 0, 0]]       # T = 4 (the CLI default): the IV table is a multiple of 16 bytes, so a block-aligned crash state can end exactly on a hash-window boundary       # a file longer than 255 bytes (ten chunks, several hash windows)       # keys for which an interrupted state needs a tag with byte sum 0 / xor 0 / last byte 0       # inputs ending exactly on a chunk boundary (pad-only last chunk)
        else:
            jobs = [["crash", T, n, cm, (n // 10 + cm) % 3, u] + ([["zt"], ["zs"], ["zx"], ["zl"], []][(n // 4 + cm + T) % 5]) for T in (1, 2, 3, 4) for n in (0, 16, 20, 32, 40, 64, 70, 100) for cm in range(5) for u in (0, 1)]
        events = fl.collect(res, PID, jobs)
    st, nfull = fl.judge(res, PID, events, full_sample=40 if tier == "quick" else 2000)
    ops = [e for e in events if e["e"] == "op"]
    logs = [e for e in events if e["e"] == "writelog"]
    keys = set((e["job"], e["pos"], e["val"]) for e in ops)
    res.cov.update({"evaluations": len(ops) + len(logs), "distinct_nontrivial": len(keys), "write_sequences_checked": len(logs), "recomputed_with_real_hmac": nfull,
                    "rule": "the output FILE* is a fopencookie stream, so every write/seek/read that leaves stdio is logged; runs with default buffering and with _IONBF. TLC checks the logged sequence against WriteOrder (strictly sequential from offset 0 to the end, then exactly one write of hlen bytes at offset 10) and, for EVERY intermediate state - every prefix of the write sequence and every byte prefix inside each write - that the real execute_verify and execute_decrypt reject it (a state byte-identical to the final file counts as final). Design: Crash.tla explores every crash point of the symbolic write sequence; negative controls (tag first / tag area pre-filled) fail. Distinct crash states = (file, write index, bytes of that write).",
                    "traces_validated_against_impl": len(ops), "validator_states": st["states"], "exhaustive": True})
    for e in (logs[:1] + ops[:: max(1, len(ops) // 3)][:3]):
        res.sample(fl.describe(e))
    res.assumptions += ["crash = the file holds exactly a prefix (at byte granularity) of the bytes handed to the OS, in the order they were handed over", "ideal MAC for the partial files"]
    return res.finish()
