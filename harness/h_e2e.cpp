// End-to-end driver (C01, C02, C08, C18): real runcrypt::execute_encrypt / verify / decrypt on
// in-memory files, real threads, chunk size from the build (-DWENCRY_VERIF_BUF_SZ).
//   h_e2e rt <T> <nmin> <nmax> <nstep> <pairs: all|rot> [twice]
//   h_e2e same <T> <chunks> <cm>          plaintext made of identical chunks (C18)
//   h_e2e consts                          production constants probe (built without overrides)
#include "wv_ops.h"

static const int seedlens[] = {1, 20, 55, 56, 64, 255, 0, 7, 256, 300};

static int n_aborts = 0;
static void roundtrip(long id, int T, const std::vector<u8_t> &P, int cm, int hm, const std::vector<u8_t> &key, const std::vector<u8_t> &seed, bool twice, const char *cls)
{
  if (n_aborts >= 4)
    return; // enough evidence: do not spend a time limit on every further case
  int detail = 0;
  int how = wv_guarded([&]()
                       {
    OpResult e = wv_encrypt(P, key, cm, hm, seed, T);
    OpResult v = wv_verify(e.out, key, T);
    OpResult d = wv_decrypt(e.out, key, T);
    Ev ev("rt");
    ev.i("id", id).str("cls", cls).i("S", iobuffer::sum).i("T", T).i("n", P.size()).i("cm", cm).i("hm", hm).b("key", key).b("seed", seed).b("P", P)
      .i("enc_ret", e.ret).b("C", e.out).i("enc_in_intact", e.in_after == P)
      .i("ver_ret", v.ret).i("ver_out_len", v.out.size()).i("ver_in_intact", v.in_after == e.out)
      .i("dec_ret", d.ret).b("D", d.out).i("dec_in_intact", d.in_after == e.out);
    if (twice)
    {
      OpResult e2 = wv_encrypt(P, key, cm, hm, seed, T);
      ev.i("same_again", e2.out == e.out);
    }
    else
      ev.i("same_again", 1);
    ev.emit(wv_out); },
                       20, &detail);
  if (how != 0)
    ++n_aborts;
  if (how != 0)
    Ev("abort").i("id", id).str("cls", cls).i("S", iobuffer::sum).i("T", T).i("n", P.size()).i("cm", cm).i("hm", hm).b("key", key).b("seed", seed).b("P", P).str("how", wv_how[how]).i("detail", detail).emit(wv_out);
}

int main(int argc, char **argv)
{
  wv_capture_stdout();
  std::string mode = argc > 1 ? argv[1] : "rt";
  Rng rng(wv_seed() * 49979687 + 1);
  long id = 0;
  if (mode == "consts")
  {
    Ev("consts").i("id", 0).i("buf_sz", iobuffer::BUF_SZ).i("sum", iobuffer::sum).i("sizeof_b", sizeof(u8_t[iobuffer::BUF_SZ][0x10])).i("thread_max", multicry_master::THREAD_MAX).i("mn", FILE_MN_MARK).i("mode", FILE_MODE_MARK).i("hmac", FILE_HMAC_MARK).i("iv", FILE_IV_MARK).i("text1", FILE_TEXT_MARK(1)).i("text16", FILE_TEXT_MARK(16)).i("padding", PADDING).i("thread_num", THREAD_NUM).emit(wv_out);
    return 0;
  }
  int T = atoi(argv[2]);
  if (mode == "big")
  {
    // production chunk size (build without the override): lengths around multiples of the chunk.
    // Bytes are not logged (too large for the validator); equality is computed here.
    long S = iobuffer::sum;
    const long lens[] = {S - 17, S - 16, S - 1, S, S + 1, 2 * S - 16, 2 * S + 3};
    for (long n : lens)
    {
      int cm = (int)((n + T) % 5), hm = (int)((n / 3 + T) % 3);
      auto P = wv_content(rng, n, 0);
      auto key = rng.bytes(16);
      std::vector<u8_t> seed = {'b', 'i', 'g'};
      int detail = 0;
      int how = wv_guarded([&]()
                           {
        OpResult e = wv_encrypt(P, key, cm, hm, seed, T);
        OpResult v = wv_verify(e.out, key, T);
        OpResult d = wv_decrypt(e.out, key, T);
        bool clear = false;
        for (long b = 0; b + 16 <= n && b < 4096 && !clear; b += 16)
          clear = memcmp(e.out.data() + 48 + 20 * T + b, P.data() + b, 16) == 0;
        Ev("rtbig").i("id", id).i("S", S).i("T", T).i("n", n).i("cm", cm).i("hm", hm).i("enc_ret", e.ret).i("clen", e.out.size())
          .i("enc_in_intact", e.in_after == P).i("ver_ret", v.ret).i("ver_out_len", v.out.size()).i("dec_ret", d.ret).i("dlen", d.out.size())
          .i("equal", d.out == P).i("clear_block", clear).b("head", e.out.data(), 10).emit(wv_out); },
                           90, &detail);
      if (how != 0)
        Ev("abort").i("id", id).str("cls", "big").i("S", S).i("T", T).i("n", n).i("cm", cm).i("hm", hm).b("key", key).b("seed", seed).b("P", NULL, 0).str("how", wv_how[how]).i("detail", detail).emit(wv_out);
      ++id;
    }
    return 0;
  }
  if (mode == "rt")
  {
    int nmin = atoi(argv[3]), nmax = atoi(argv[4]), nstep = atoi(argv[5]);
    bool all = std::string(argv[6]) == "all";
    bool twice = argc > 7;
    for (int n = nmin; n <= nmax; n += nstep)
      for (int pr = 0; pr < (all ? 15 : 1); ++pr)
      {
        int cm = all ? pr % 5 : (n + T) % 5, hm = all ? pr / 5 : (n / 5 + T) % 3;
        int sl = seedlens[(n + pr + T) % 10];
        auto seed = rng.bytes(sl);
        for (auto &c : seed)
          if (c == 0)
            c = 1;
        roundtrip(id++, T, wv_content(rng, n, (n + pr) % 3 == 0 ? 0 : 1), cm, hm, rng.bytes(16), seed, twice && (n % 4 == 0), "len");
      }
  }
  else if (mode == "ff")
  {
    // ECB, plaintext chosen so that the first ciphertext byte of every chunk after the first is 0xFF
    // (and of one block in the middle of a chunk): the byte a decrypt-side look-ahead sees at a boundary
    for (int rep = 0; rep < 3; ++rep)
    {
      auto key = rng.bytes(16);
      int S = iobuffer::sum, chunks = 3 + rep;
      std::vector<u8_t> P;
      for (int b = 0; b < chunks * S / 16; ++b)
      {
        auto blk = rng.bytes(16);
        if ((b * 16) % S == 0 || b == 1)
        {
          blk[0] = 0xFF;
          decryaes d(key.data());
          d.runaes_128bit(blk.data()); // so that E_k(blk) = FF ...
        }
        P.insert(P.end(), blk.begin(), blk.end());
      }
      auto tailb = rng.bytes(5);
      P.insert(P.end(), tailb.begin(), tailb.end());
      std::vector<u8_t> seed = {'f', 'f'};
      roundtrip(id++, T, P, 0, rep % 3, key, seed, false, "ff-boundary");
    }
  }
  else if (mode == "ivclass")
  {
    // seeds searched (with the code's own SHA-1) so that the FIRST IV ends in ..F9-FE / ..FF / ..FFFF: counters that
    // carry within the first blocks of a file, through whatever path the pipeline increments them (per block or in bulk)
    HashFactory hf;
    for (int cls = 0; cls < 3; ++cls)
    {
      std::vector<u8_t> seed;
      u8_t d[20];
      for (int tries = 0; tries < 300000; ++tries)
      {
        std::string s = "ivc" + std::to_string(cls) + "-" + std::to_string(tries);
        Hashmaster *hm = hf.getHasher(HashFactory::SHA1);
        hm->getStringHash((const u8_t *)s.c_str(), s.size(), d);
        delete hm;
        bool ok = cls == 0 ? (d[15] >= 0xF9 && d[15] <= 0xFE) : cls == 1 ? d[15] == 0xFF : (d[15] == 0xFF && d[14] == 0xFF);
        if (ok)
        {
          seed.assign(s.begin(), s.end());
          break;
        }
      }
      if (seed.empty())
        continue;
      const int S = iobuffer::sum;
      for (int cm = 1; cm < 5; ++cm)
        roundtrip(id++, T, wv_content(rng, 2 * S * T + S + 5, 1), cm, (cm + cls) % 3, rng.bytes(16), seed, false, cls == 0 ? "iv-ends-f9-fe" : cls == 1 ? "iv-ends-ff" : "iv-ends-ffff");
    }
  }
  else if (mode == "tails")
  {
    // plaintexts whose END looks like PKCS#7 padding (or like nothing at all): a decryptor that inspects more
    // than the final pad byte, strips greedily, or treats 0x00 / 0x10 / 0xFF specially shows here and nowhere else
    const int S = iobuffer::sum;
    const int lens[] = {1, 15, 16, 17, 31, 32, 33, S - 1, S, S + 1, S + 16, 2 * S - 1, 2 * S, 2 * S + 15};
    int k = 0;
    for (int n : lens)
      for (int tc = 0; tc < 8; ++tc)
      {
        auto P = wv_content(rng, n, 1);
        auto fill = [&](int cnt, u8_t v)
        {
          for (int i = 0; i < cnt && i < n; ++i)
            P[n - 1 - i] = v;
        };
        switch (tc)
        {
        case 0: fill(1, 0x01); break;                  // a complete one-byte padding
        case 1: fill(2, 0x02); break;
        case 2: fill(16, 0x10); break;                 // a whole padding block
        case 3: fill(1, 0x10); break;
        case 4: fill(n, 0x00); break;                  // all zero
        case 5: fill(3, 0xFF); break;
        case 6: fill(17, 0x01); break;                 // a run of the pad value longer than the pad
        case 7: fill(1, (u8_t)(16 - n % 16)); break;   // ends in the very pad byte that encryption will append
        }
        std::vector<u8_t> seed = {'t', 'l'};
        roundtrip(id++, T, P, k % 5, (k / 5) % 3, rng.bytes(16), seed, false, "pad-like-tail");
        ++k;
      }
  }
  else if (mode == "same")
  {
    int chunks = atoi(argv[3]);
    for (int cm = 0; cm < 5; ++cm)
      for (int k = 2; k <= chunks; ++k)
        for (int sd = 0; sd < 2; ++sd)
        {
          auto one = rng.bytes(iobuffer::sum);
          std::vector<u8_t> P;
          for (int j = 0; j < k; ++j)
            P.insert(P.end(), one.begin(), one.end());
          auto seed = rng.bytes(20);
          for (auto &c : seed)
            if (c == 0)
              c = 1;
          roundtrip(id++, T, P, cm, (cm + k) % 3, rng.bytes(16), seed, false, "same-chunks");
        }
  }
  return 0;
}
