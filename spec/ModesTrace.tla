------------------------------ MODULE ModesTrace -----------------------------
(***************************************************************************)
(* C10: every recorded stream (one mode object, its runcry calls in order) *)
(* must be the behaviour of the SP 800-38A state machine of Modes.tla      *)
(* started from the same key and IV; a decryptor fed an encryptor's output *)
(* must restore the encryptor's input (field orig).                        *)
(***************************************************************************)
EXTENDS Naturals, Sequences, TLC, Json, IOUtils, Bytes
LOCAL M == INSTANCE ModesAES
Events == ndJsonDeserialize(IOEnv.TRACE)
VARIABLES l, nbad

FirstDiff(a, b) == CHOOSE i \in 1..Len(a) : a[i] # b[i] /\ \A j \in 1..(i - 1) : a[j] = b[j]
Why(ev) ==
  IF ev.e # "stream" THEN <<"unknown event">>
  ELSE LET want == M!Run(ev.enc = 1, ev.mode, M!Schedule(ev.key), ev.iv, ev.ins)[1] IN
       IF Len(ev.outs) # Len(ev.ins) THEN <<"wrong number of outputs">>
       ELSE IF ev.outs # want THEN <<"output differs from SP 800-38A at block", FirstDiff(ev.outs, want)>>
       ELSE IF ev.enc = 0 /\ ev.orig # <<>> /\ ev.outs # ev.orig THEN <<"decryptor does not restore the encryptor's input">>
       ELSE <<"ok">>

Init == l = 1 /\ nbad = 0
Next == /\ l <= Len(Events)
        /\ LET ev == Events[l]  w == Why(ev)
           IN /\ IF w = <<"ok">> THEN TRUE ELSE PrintT(<<"BAD", l, ev.id, w>>)
              /\ nbad' = nbad + (IF w = <<"ok">> THEN 0 ELSE 1)
        /\ l' = l + 1
Finished == (l = Len(Events) + 1) => PrintT(<<"DONE", Len(Events), nbad>>)
Spec == Init /\ [][Next]_<<l, nbad>>
=============================================================================
