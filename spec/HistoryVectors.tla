---------------------------- MODULE HistoryVectors ---------------------------
(* C15 vector generation: every history of the operation alphabet of History.tla up to length 3,
   written as JSON for the driver (longer histories are built by the front end from these). *)
EXTENDS Naturals, Sequences, TLC, Json, IOUtils, SequencesExt, FiniteSetsExt
Ops == 0..36
H1 == { <<a>> : a \in Ops }
H2 == { <<a, b>> : a \in Ops, b \in Ops }
H3 == { <<a, b, c>> : a \in Ops, b \in Ops, c \in Ops }
ASSUME JsonSerialize(IOEnv.OUT, SetToSeq(H1 \cup H2 \cup H3))
ASSUME PrintT(<<"HISTORIES", Cardinality(H1 \cup H2 \cup H3)>>)
=============================================================================
