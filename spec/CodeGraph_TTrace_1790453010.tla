---- MODULE CodeGraph_TTrace_1790453010 ----
EXTENDS CodeGraph, Sequences, TLCExt, Toolbox, Naturals, TLC

_expression ==
    LET CodeGraph_TEExpression == INSTANCE CodeGraph_TEExpression
    IN CodeGraph_TEExpression!expression
----

_trace ==
    LET CodeGraph_TETrace == INSTANCE CodeGraph_TETrace
    IN CodeGraph_TETrace!trace
----

_inv ==
    ~(
        TLCGet("level") = Len(_TETrace)
        /\
        over = (TRUE)
        /\
        cur = ((0 :> 2 @@ 1 :> 2))
        /\
        st = ((0 :> "READY" @@ 1 :> "INV"))
        /\
        cvU = ((0 :> {2} @@ 1 :> {}))
        /\
        pcw = ((0 :> "done" @@ 1 :> "done"))
        /\
        born = (2)
        /\
        turn = (0)
        /\
        pcio = ("wuw")
        /\
        out = (<<[q |-> 0, s |-> 0, k |-> 0, cnt |-> 1], [q |-> 1, s |-> 0, k |-> 1, cnt |-> 1], [q |-> 0, s |-> 1, k |-> 2, cnt |-> 1], [q |-> 1, s |-> 1, k |-> 3, cnt |-> 1]>>)
        /\
        mtx = ((0 :> 3 @@ 1 :> 3))
        /\
        node = (80)
        /\
        hist = ((0 :> 2 @@ 1 :> 2))
        /\
        buf = ((0 :> [total |-> 1, now |-> 0, final |-> TRUE, data |-> <<[q |-> 99, s |-> 99, k |-> 4, cnt |-> 0]>>] @@ 1 :> [total |-> 2, now |-> 2, final |-> FALSE, data |-> <<[q |-> 0, s |-> 1, k |-> 2, cnt |-> 1], [q |-> 1, s |-> 1, k |-> 3, cnt |-> 1]>>]))
        /\
        lstate = ("NODATA")
        /\
        nload = (4)
        /\
        outlen = (64)
        /\
        nj = (0)
        /\
        cvR = ((0 :> {} @@ 1 :> {}))
        /\
        live = (1)
    )
----

_init ==
    /\ node = _TETrace[1].node
    /\ cvR = _TETrace[1].cvR
    /\ cur = _TETrace[1].cur
    /\ cvU = _TETrace[1].cvU
    /\ nj = _TETrace[1].nj
    /\ mtx = _TETrace[1].mtx
    /\ nload = _TETrace[1].nload
    /\ out = _TETrace[1].out
    /\ pcw = _TETrace[1].pcw
    /\ over = _TETrace[1].over
    /\ lstate = _TETrace[1].lstate
    /\ hist = _TETrace[1].hist
    /\ st = _TETrace[1].st
    /\ buf = _TETrace[1].buf
    /\ outlen = _TETrace[1].outlen
    /\ born = _TETrace[1].born
    /\ live = _TETrace[1].live
    /\ pcio = _TETrace[1].pcio
    /\ turn = _TETrace[1].turn
----

_next ==
    /\ \E i,j \in DOMAIN _TETrace:
        /\ \/ /\ j = i + 1
              /\ i = TLCGet("level")
        /\ node  = _TETrace[i].node
        /\ node' = _TETrace[j].node
        /\ cvR  = _TETrace[i].cvR
        /\ cvR' = _TETrace[j].cvR
        /\ cur  = _TETrace[i].cur
        /\ cur' = _TETrace[j].cur
        /\ cvU  = _TETrace[i].cvU
        /\ cvU' = _TETrace[j].cvU
        /\ nj  = _TETrace[i].nj
        /\ nj' = _TETrace[j].nj
        /\ mtx  = _TETrace[i].mtx
        /\ mtx' = _TETrace[j].mtx
        /\ nload  = _TETrace[i].nload
        /\ nload' = _TETrace[j].nload
        /\ out  = _TETrace[i].out
        /\ out' = _TETrace[j].out
        /\ pcw  = _TETrace[i].pcw
        /\ pcw' = _TETrace[j].pcw
        /\ over  = _TETrace[i].over
        /\ over' = _TETrace[j].over
        /\ lstate  = _TETrace[i].lstate
        /\ lstate' = _TETrace[j].lstate
        /\ hist  = _TETrace[i].hist
        /\ hist' = _TETrace[j].hist
        /\ st  = _TETrace[i].st
        /\ st' = _TETrace[j].st
        /\ buf  = _TETrace[i].buf
        /\ buf' = _TETrace[j].buf
        /\ outlen  = _TETrace[i].outlen
        /\ outlen' = _TETrace[j].outlen
        /\ born  = _TETrace[i].born
        /\ born' = _TETrace[j].born
        /\ live  = _TETrace[i].live
        /\ live' = _TETrace[j].live
        /\ pcio  = _TETrace[i].pcio
        /\ pcio' = _TETrace[j].pcio
        /\ turn  = _TETrace[i].turn
        /\ turn' = _TETrace[j].turn

\* Uncomment the ASSUME below to write the states of the error trace
\* to the given file in Json format. Note that you can pass any tuple
\* to `JsonSerialize`. For example, a sub-sequence of _TETrace.
    \* ASSUME
    \*     LET J == INSTANCE Json
    \*         IN J!JsonSerialize("CodeGraph_TTrace_1790453010.json", _TETrace)

=============================================================================

 Note that you can extract this module `CodeGraph_TEExpression`
  to a dedicated file to reuse `expression` (the module in the 
  dedicated `CodeGraph_TEExpression.tla` file takes precedence 
  over the module `CodeGraph_TEExpression` below).

---- MODULE CodeGraph_TEExpression ----
EXTENDS CodeGraph, Sequences, TLCExt, Toolbox, Naturals, TLC

expression == 
    [
        \* To hide variables of the `CodeGraph` spec from the error trace,
        \* remove the variables below.  The trace will be written in the order
        \* of the fields of this record.
        node |-> node
        ,cvR |-> cvR
        ,cur |-> cur
        ,cvU |-> cvU
        ,nj |-> nj
        ,mtx |-> mtx
        ,nload |-> nload
        ,out |-> out
        ,pcw |-> pcw
        ,over |-> over
        ,lstate |-> lstate
        ,hist |-> hist
        ,st |-> st
        ,buf |-> buf
        ,outlen |-> outlen
        ,born |-> born
        ,live |-> live
        ,pcio |-> pcio
        ,turn |-> turn
        
        \* Put additional constant-, state-, and action-level expressions here:
        \* ,_stateNumber |-> _TEPosition
        \* ,_nodeUnchanged |-> node = node'
        
        \* Format the `node` variable as Json value.
        \* ,_nodeJson |->
        \*     LET J == INSTANCE Json
        \*     IN J!ToJson(node)
        
        \* Lastly, you may build expressions over arbitrary sets of states by
        \* leveraging the _TETrace operator.  For example, this is how to
        \* count the number of times a spec variable changed up to the current
        \* state in the trace.
        \* ,_nodeModCount |->
        \*     LET F[s \in DOMAIN _TETrace] ==
        \*         IF s = 1 THEN 0
        \*         ELSE IF _TETrace[s].node # _TETrace[s-1].node
        \*             THEN 1 + F[s-1] ELSE F[s-1]
        \*     IN F[_TEPosition - 1]
    ]

=============================================================================



Parsing and semantic processing can take forever if the trace below is long.
 In this case, it is advised to uncomment the module below to deserialize the
 trace from a generated binary file.

\*
\*---- MODULE CodeGraph_TETrace ----
\*EXTENDS CodeGraph, IOUtils, TLC
\*
\*trace == IODeserialize("CodeGraph_TTrace_1790453010.bin", TRUE)
\*
\*=============================================================================
\*

---- MODULE CodeGraph_TETrace ----
EXTENDS CodeGraph, TLC

trace == 
    <<
    ([over |-> FALSE,cur |-> (0 :> 0 @@ 1 :> 0),st |-> (0 :> "EMPTY" @@ 1 :> "EMPTY"),cvU |-> (0 :> {} @@ 1 :> {}),pcw |-> (0 :> "st" @@ 1 :> "st"),born |-> 0,turn |-> 0,pcio |-> "sp",out |-> <<>>,mtx |-> (0 :> 3 @@ 1 :> 3),node |-> 0,hist |-> (0 :> 0 @@ 1 :> 0),buf |-> (0 :> [total |-> 0, now |-> 0, final |-> FALSE, data |-> <<>>] @@ 1 :> [total |-> 0, now |-> 0, final |-> FALSE, data |-> <<>>]),lstate |-> "NODATA",nload |-> 1,outlen |-> 0,nj |-> 0,cvR |-> (0 :> {} @@ 1 :> {}),live |-> 2]),
    ([over |-> FALSE,cur |-> (0 :> 0 @@ 1 :> 0),st |-> (0 :> "EMPTY" @@ 1 :> "EMPTY"),cvU |-> (0 :> {} @@ 1 :> {}),pcw |-> (0 :> "st" @@ 1 :> "st"),born |-> 1,turn |-> 0,pcio |-> "sp",out |-> <<>>,mtx |-> (0 :> 3 @@ 1 :> 3),node |-> 1,hist |-> (0 :> 0 @@ 1 :> 0),buf |-> (0 :> [total |-> 0, now |-> 0, final |-> FALSE, data |-> <<>>] @@ 1 :> [total |-> 0, now |-> 0, final |-> FALSE, data |-> <<>>]),lstate |-> "NODATA",nload |-> 1,outlen |-> 0,nj |-> 0,cvR |-> (0 :> {} @@ 1 :> {}),live |-> 2]),
    ([over |-> FALSE,cur |-> (0 :> 0 @@ 1 :> 0),st |-> (0 :> "EMPTY" @@ 1 :> "EMPTY"),cvU |-> (0 :> {} @@ 1 :> {}),pcw |-> (0 :> "st" @@ 1 :> "st"),born |-> 2,turn |-> 0,pcio |-> "sp",out |-> <<>>,mtx |-> (0 :> 3 @@ 1 :> 3),node |-> 2,hist |-> (0 :> 0 @@ 1 :> 0),buf |-> (0 :> [total |-> 0, now |-> 0, final |-> FALSE, data |-> <<>>] @@ 1 :> [total |-> 0, now |-> 0, final |-> FALSE, data |-> <<>>]),lstate |-> "NODATA",nload |-> 1,outlen |-> 0,nj |-> 0,cvR |-> (0 :> {} @@ 1 :> {}),live |-> 2]),
    ([over |-> FALSE,cur |-> (0 :> 0 @@ 1 :> 0),st |-> (0 :> "EMPTY" @@ 1 :> "EMPTY"),cvU |-> (0 :> {} @@ 1 :> {}),pcw |-> (0 :> "st" @@ 1 :> "st"),born |-> 2,turn |-> 0,pcio |-> "wu0",out |-> <<>>,mtx |-> (0 :> 3 @@ 1 :> 3),node |-> 3,hist |-> (0 :> 0 @@ 1 :> 0),buf |-> (0 :> [total |-> 0, now |-> 0, final |-> FALSE, data |-> <<>>] @@ 1 :> [total |-> 0, now |-> 0, final |-> FALSE, data |-> <<>>]),lstate |-> "NODATA",nload |-> 1,outlen |-> 0,nj |-> 0,cvR |-> (0 :> {} @@ 1 :> {}),live |-> 2]),
    ([over |-> FALSE,cur |-> (0 :> 0 @@ 1 :> 0),st |-> (0 :> "EMPTY" @@ 1 :> "EMPTY"),cvU |-> (0 :> {} @@ 1 :> {}),pcw |-> (0 :> "st" @@ 1 :> "st"),born |-> 2,turn |-> 0,pcio |-> "wu1",out |-> <<>>,mtx |-> (0 :> 2 @@ 1 :> 3),node |-> 4,hist |-> (0 :> 0 @@ 1 :> 0),buf |-> (0 :> [total |-> 0, now |-> 0, final |-> FALSE, data |-> <<>>] @@ 1 :> [total |-> 0, now |-> 0, final |-> FALSE, data |-> <<>>]),lstate |-> "NODATA",nload |-> 1,outlen |-> 0,nj |-> 0,cvR |-> (0 :> {} @@ 1 :> {}),live |-> 2]),
    ([over |-> FALSE,cur |-> (0 :> 0 @@ 1 :> 0),st |-> (0 :> "EMPTY" @@ 1 :> "EMPTY"),cvU |-> (0 :> {} @@ 1 :> {}),pcw |-> (0 :> "st" @@ 1 :> "st"),born |-> 2,turn |-> 0,pcio |-> "wu2",out |-> <<>>,mtx |-> (0 :> 3 @@ 1 :> 3),node |-> 5,hist |-> (0 :> 0 @@ 1 :> 0),buf |-> (0 :> [total |-> 0, now |-> 0, final |-> FALSE, data |-> <<>>] @@ 1 :> [total |-> 0, now |-> 0, final |-> FALSE, data |-> <<>>]),lstate |-> "NODATA",nload |-> 1,outlen |-> 0,nj |-> 0,cvR |-> (0 :> {} @@ 1 :> {}),live |-> 2]),
    ([over |-> FALSE,cur |-> (0 :> 0 @@ 1 :> 0),st |-> (0 :> "EMPTY" @@ 1 :> "EMPTY"),cvU |-> (0 :> {} @@ 1 :> {}),pcw |-> (0 :> "st" @@ 1 :> "st"),born |-> 2,turn |-> 0,pcio |-> "bu",out |-> <<>>,mtx |-> (0 :> 3 @@ 1 :> 3),node |-> 6,hist |-> (0 :> 0 @@ 1 :> 0),buf |-> (0 :> [total |-> 0, now |-> 0, final |-> FALSE, data |-> <<>>] @@ 1 :> [total |-> 0, now |-> 0, final |-> FALSE, data |-> <<>>]),lstate |-> "NODATA",nload |-> 1,outlen |-> 0,nj |-> 0,cvR |-> (0 :> {} @@ 1 :> {}),live |-> 2]),
    ([over |-> FALSE,cur |-> (0 :> 0 @@ 1 :> 0),st |-> (0 :> "EMPTY" @@ 1 :> "EMPTY"),cvU |-> (0 :> {} @@ 1 :> {}),pcw |-> (0 :> "st" @@ 1 :> "st"),born |-> 2,turn |-> 0,pcio |-> "ld0",out |-> <<>>,mtx |-> (0 :> 3 @@ 1 :> 3),node |-> 7,hist |-> (0 :> 0 @@ 1 :> 0),buf |-> (0 :> [total |-> 0, now |-> 0, final |-> FALSE, data |-> <<>>] @@ 1 :> [total |-> 0, now |-> 0, final |-> FALSE, data |-> <<>>]),lstate |-> "NODATA",nload |-> 1,outlen |-> 0,nj |-> 0,cvR |-> (0 :> {} @@ 1 :> {}),live |-> 2]),
    ([over |-> FALSE,cur |-> (0 :> 0 @@ 1 :> 0),st |-> (0 :> "EMPTY" @@ 1 :> "EMPTY"),cvU |-> (0 :> {} @@ 1 :> {}),pcw |-> (0 :> "st" @@ 1 :> "st"),born |-> 2,turn |-> 0,pcio |-> "ld1",out |-> <<>>,mtx |-> (0 :> 3 @@ 1 :> 3),node |-> 8,hist |-> (0 :> 0 @@ 1 :> 0),buf |-> (0 :> [total |-> 2, now |-> 0, final |-> FALSE, data |-> <<[q |-> 99, s |-> 99, k |-> 0, cnt |-> 0], [q |-> 99, s |-> 99, k |-> 1, cnt |-> 0]>>] @@ 1 :> [total |-> 0, now |-> 0, final |-> FALSE, data |-> <<>>]),lstate |-> "FULL",nload |-> 2,outlen |-> 0,nj |-> 0,cvR |-> (0 :> {} @@ 1 :> {}),live |-> 2]),
    ([over |-> FALSE,cur |-> (0 :> 0 @@ 1 :> 0),st |-> (0 :> "EMPTY" @@ 1 :> "EMPTY"),cvU |-> (0 :> {} @@ 1 :> {}),pcw |-> (0 :> "st" @@ 1 :> "st"),born |-> 2,turn |-> 0,pcio |-> "sr0",out |-> <<>>,mtx |-> (0 :> 3 @@ 1 :> 3),node |-> 9,hist |-> (0 :> 0 @@ 1 :> 0),buf |-> (0 :> [total |-> 2, now |-> 0, final |-> FALSE, data |-> <<[q |-> 99, s |-> 99, k |-> 0, cnt |-> 0], [q |-> 99, s |-> 99, k |-> 1, cnt |-> 0]>>] @@ 1 :> [total |-> 0, now |-> 0, final |-> FALSE, data |-> <<>>]),lstate |-> "FULL",nload |-> 2,outlen |-> 0,nj |-> 0,cvR |-> (0 :> {} @@ 1 :> {}),live |-> 2]),
    ([over |-> FALSE,cur |-> (0 :> 0 @@ 1 :> 0),st |-> (0 :> "EMPTY" @@ 1 :> "EMPTY"),cvU |-> (0 :> {} @@ 1 :> {}),pcw |-> (0 :> "st" @@ 1 :> "st"),born |-> 2,turn |-> 0,pcio |-> "sr1",out |-> <<>>,mtx |-> (0 :> 2 @@ 1 :> 3),node |-> 10,hist |-> (0 :> 0 @@ 1 :> 0),buf |-> (0 :> [total |-> 2, now |-> 0, final |-> FALSE, data |-> <<[q |-> 99, s |-> 99, k |-> 0, cnt |-> 0], [q |-> 99, s |-> 99, k |-> 1, cnt |-> 0]>>] @@ 1 :> [total |-> 0, now |-> 0, final |-> FALSE, data |-> <<>>]),lstate |-> "FULL",nload |-> 2,outlen |-> 0,nj |-> 0,cvR |-> (0 :> {} @@ 1 :> {}),live |-> 2]),
    ([over |-> FALSE,cur |-> (0 :> 0 @@ 1 :> 0),st |-> (0 :> "READY" @@ 1 :> "EMPTY"),cvU |-> (0 :> {} @@ 1 :> {}),pcw |-> (0 :> "st" @@ 1 :> "st"),born |-> 2,turn |-> 0,pcio |-> "sr2",out |-> <<>>,mtx |-> (0 :> 3 @@ 1 :> 3),node |-> 11,hist |-> (0 :> 0 @@ 1 :> 0),buf |-> (0 :> [total |-> 2, now |-> 0, final |-> FALSE, data |-> <<[q |-> 99, s |-> 99, k |-> 0, cnt |-> 0], [q |-> 99, s |-> 99, k |-> 1, cnt |-> 0]>>] @@ 1 :> [total |-> 0, now |-> 0, final |-> FALSE, data |-> <<>>]),lstate |-> "FULL",nload |-> 2,outlen |-> 0,nj |-> 0,cvR |-> (0 :> {} @@ 1 :> {}),live |-> 2]),
    ([over |-> FALSE,cur |-> (0 :> 0 @@ 1 :> 0),st |-> (0 :> "READY" @@ 1 :> "EMPTY"),cvU |-> (0 :> {} @@ 1 :> {}),pcw |-> (0 :> "st" @@ 1 :> "st"),born |-> 2,turn |-> 0,pcio |-> "ti",out |-> <<>>,mtx |-> (0 :> 3 @@ 1 :> 3),node |-> 12,hist |-> (0 :> 0 @@ 1 :> 0),buf |-> (0 :> [total |-> 2, now |-> 0, final |-> FALSE, data |-> <<[q |-> 99, s |-> 99, k |-> 0, cnt |-> 0], [q |-> 99, s |-> 99, k |-> 1, cnt |-> 0]>>] @@ 1 :> [total |-> 0, now |-> 0, final |-> FALSE, data |-> <<>>]),lstate |-> "FULL",nload |-> 2,outlen |-> 0,nj |-> 0,cvR |-> (0 :> {} @@ 1 :> {}),live |-> 2]),
    ([over |-> FALSE,cur |-> (0 :> 0 @@ 1 :> 0),st |-> (0 :> "READY" @@ 1 :> "EMPTY"),cvU |-> (0 :> {} @@ 1 :> {}),pcw |-> (0 :> "st" @@ 1 :> "st"),born |-> 2,turn |-> 1,pcio |-> "wu0",out |-> <<>>,mtx |-> (0 :> 3 @@ 1 :> 3),node |-> 13,hist |-> (0 :> 0 @@ 1 :> 0),buf |-> (0 :> [total |-> 2, now |-> 0, final |-> FALSE, data |-> <<[q |-> 99, s |-> 99, k |-> 0, cnt |-> 0], [q |-> 99, s |-> 99, k |-> 1, cnt |-> 0]>>] @@ 1 :> [total |-> 0, now |-> 0, final |-> FALSE, data |-> <<>>]),lstate |-> "FULL",nload |-> 2,outlen |-> 0,nj |-> 0,cvR |-> (0 :> {} @@ 1 :> {}),live |-> 2]),
    ([over |-> FALSE,cur |-> (0 :> 0 @@ 1 :> 0),st |-> (0 :> "READY" @@ 1 :> "EMPTY"),cvU |-> (0 :> {} @@ 1 :> {}),pcw |-> (0 :> "st" @@ 1 :> "st"),born |-> 2,turn |-> 1,pcio |-> "wu1",out |-> <<>>,mtx |-> (0 :> 3 @@ 1 :> 2),node |-> 14,hist |-> (0 :> 0 @@ 1 :> 0),buf |-> (0 :> [total |-> 2, now |-> 0, final |-> FALSE, data |-> <<[q |-> 99, s |-> 99, k |-> 0, cnt |-> 0], [q |-> 99, s |-> 99, k |-> 1, cnt |-> 0]>>] @@ 1 :> [total |-> 0, now |-> 0, final |-> FALSE, data |-> <<>>]),lstate |-> "FULL",nload |-> 2,outlen |-> 0,nj |-> 0,cvR |-> (0 :> {} @@ 1 :> {}),live |-> 2]),
    ([over |-> FALSE,cur |-> (0 :> 0 @@ 1 :> 0),st |-> (0 :> "READY" @@ 1 :> "EMPTY"),cvU |-> (0 :> {} @@ 1 :> {}),pcw |-> (0 :> "st" @@ 1 :> "st"),born |-> 2,turn |-> 1,pcio |-> "wu2",out |-> <<>>,mtx |-> (0 :> 3 @@ 1 :> 3),node |-> 15,hist |-> (0 :> 0 @@ 1 :> 0),buf |-> (0 :> [total |-> 2, now |-> 0, final |-> FALSE, data |-> <<[q |-> 99, s |-> 99, k |-> 0, cnt |-> 0], [q |-> 99, s |-> 99, k |-> 1, cnt |-> 0]>>] @@ 1 :> [total |-> 0, now |-> 0, final |-> FALSE, data |-> <<>>]),lstate |-> "FULL",nload |-> 2,outlen |-> 0,nj |-> 0,cvR |-> (0 :> {} @@ 1 :> {}),live |-> 2]),
    ([over |-> FALSE,cur |-> (0 :> 0 @@ 1 :> 0),st |-> (0 :> "READY" @@ 1 :> "EMPTY"),cvU |-> (0 :> {} @@ 1 :> {}),pcw |-> (0 :> "st" @@ 1 :> "st"),born |-> 2,turn |-> 1,pcio |-> "bu",out |-> <<>>,mtx |-> (0 :> 3 @@ 1 :> 3),node |-> 16,hist |-> (0 :> 0 @@ 1 :> 0),buf |-> (0 :> [total |-> 2, now |-> 0, final |-> FALSE, data |-> <<[q |-> 99, s |-> 99, k |-> 0, cnt |-> 0], [q |-> 99, s |-> 99, k |-> 1, cnt |-> 0]>>] @@ 1 :> [total |-> 0, now |-> 0, final |-> FALSE, data |-> <<>>]),lstate |-> "FULL",nload |-> 2,outlen |-> 0,nj |-> 0,cvR |-> (0 :> {} @@ 1 :> {}),live |-> 2]),
    ([over |-> FALSE,cur |-> (0 :> 0 @@ 1 :> 0),st |-> (0 :> "READY" @@ 1 :> "EMPTY"),cvU |-> (0 :> {} @@ 1 :> {}),pcw |-> (0 :> "st" @@ 1 :> "st"),born |-> 2,turn |-> 1,pcio |-> "ld0",out |-> <<>>,mtx |-> (0 :> 3 @@ 1 :> 3),node |-> 17,hist |-> (0 :> 0 @@ 1 :> 0),buf |-> (0 :> [total |-> 2, now |-> 0, final |-> FALSE, data |-> <<[q |-> 99, s |-> 99, k |-> 0, cnt |-> 0], [q |-> 99, s |-> 99, k |-> 1, cnt |-> 0]>>] @@ 1 :> [total |-> 0, now |-> 0, final |-> FALSE, data |-> <<>>]),lstate |-> "NODATA",nload |-> 2,outlen |-> 0,nj |-> 0,cvR |-> (0 :> {} @@ 1 :> {}),live |-> 2]),
    ([over |-> FALSE,cur |-> (0 :> 0 @@ 1 :> 0),st |-> (0 :> "READY" @@ 1 :> "EMPTY"),cvU |-> (0 :> {} @@ 1 :> {}),pcw |-> (0 :> "st" @@ 1 :> "st"),born |-> 2,turn |-> 1,pcio |-> "ld1",out |-> <<>>,mtx |-> (0 :> 3 @@ 1 :> 3),node |-> 18,hist |-> (0 :> 0 @@ 1 :> 0),buf |-> (0 :> [total |-> 2, now |-> 0, final |-> FALSE, data |-> <<[q |-> 99, s |-> 99, k |-> 0, cnt |-> 0], [q |-> 99, s |-> 99, k |-> 1, cnt |-> 0]>>] @@ 1 :> [total |-> 2, now |-> 0, final |-> FALSE, data |-> <<[q |-> 99, s |-> 99, k |-> 2, cnt |-> 0], [q |-> 99, s |-> 99, k |-> 3, cnt |-> 0]>>]),lstate |-> "FULL",nload |-> 3,outlen |-> 0,nj |-> 0,cvR |-> (0 :> {} @@ 1 :> {}),live |-> 2]),
    ([over |-> FALSE,cur |-> (0 :> 0 @@ 1 :> 0),st |-> (0 :> "READY" @@ 1 :> "EMPTY"),cvU |-> (0 :> {} @@ 1 :> {}),pcw |-> (0 :> "st" @@ 1 :> "st"),born |-> 2,turn |-> 1,pcio |-> "sr0",out |-> <<>>,mtx |-> (0 :> 3 @@ 1 :> 3),node |-> 19,hist |-> (0 :> 0 @@ 1 :> 0),buf |-> (0 :> [total |-> 2, now |-> 0, final |-> FALSE, data |-> <<[q |-> 99, s |-> 99, k |-> 0, cnt |-> 0], [q |-> 99, s |-> 99, k |-> 1, cnt |-> 0]>>] @@ 1 :> [total |-> 2, now |-> 0, final |-> FALSE, data |-> <<[q |-> 99, s |-> 99, k |-> 2, cnt |-> 0], [q |-> 99, s |-> 99, k |-> 3, cnt |-> 0]>>]),lstate |-> "FULL",nload |-> 3,outlen |-> 0,nj |-> 0,cvR |-> (0 :> {} @@ 1 :> {}),live |-> 2]),
    ([over |-> FALSE,cur |-> (0 :> 0 @@ 1 :> 0),st |-> (0 :> "READY" @@ 1 :> "EMPTY"),cvU |-> (0 :> {} @@ 1 :> {}),pcw |-> (0 :> "st" @@ 1 :> "st"),born |-> 2,turn |-> 1,pcio |-> "sr1",out |-> <<>>,mtx |-> (0 :> 3 @@ 1 :> 2),node |-> 20,hist |-> (0 :> 0 @@ 1 :> 0),buf |-> (0 :> [total |-> 2, now |-> 0, final |-> FALSE, data |-> <<[q |-> 99, s |-> 99, k |-> 0, cnt |-> 0], [q |-> 99, s |-> 99, k |-> 1, cnt |-> 0]>>] @@ 1 :> [total |-> 2, now |-> 0, final |-> FALSE, data |-> <<[q |-> 99, s |-> 99, k |-> 2, cnt |-> 0], [q |-> 99, s |-> 99, k |-> 3, cnt |-> 0]>>]),lstate |-> "FULL",nload |-> 3,outlen |-> 0,nj |-> 0,cvR |-> (0 :> {} @@ 1 :> {}),live |-> 2]),
    ([over |-> FALSE,cur |-> (0 :> 0 @@ 1 :> 0),st |-> (0 :> "READY" @@ 1 :> "READY"),cvU |-> (0 :> {} @@ 1 :> {}),pcw |-> (0 :> "st" @@ 1 :> "st"),born |-> 2,turn |-> 1,pcio |-> "sr2",out |-> <<>>,mtx |-> (0 :> 3 @@ 1 :> 3),node |-> 21,hist |-> (0 :> 0 @@ 1 :> 0),buf |-> (0 :> [total |-> 2, now |-> 0, final |-> FALSE, data |-> <<[q |-> 99, s |-> 99, k |-> 0, cnt |-> 0], [q |-> 99, s |-> 99, k |-> 1, cnt |-> 0]>>] @@ 1 :> [total |-> 2, now |-> 0, final |-> FALSE, data |-> <<[q |-> 99, s |-> 99, k |-> 2, cnt |-> 0], [q |-> 99, s |-> 99, k |-> 3, cnt |-> 0]>>]),lstate |-> "FULL",nload |-> 3,outlen |-> 0,nj |-> 0,cvR |-> (0 :> {} @@ 1 :> {}),live |-> 2]),
    ([over |-> FALSE,cur |-> (0 :> 0 @@ 1 :> 0),st |-> (0 :> "READY" @@ 1 :> "READY"),cvU |-> (0 :> {} @@ 1 :> {}),pcw |-> (0 :> "st" @@ 1 :> "st"),born |-> 2,turn |-> 1,pcio |-> "ti",out |-> <<>>,mtx |-> (0 :> 3 @@ 1 :> 3),node |-> 22,hist |-> (0 :> 0 @@ 1 :> 0),buf |-> (0 :> [total |-> 2, now |-> 0, final |-> FALSE, data |-> <<[q |-> 99, s |-> 99, k |-> 0, cnt |-> 0], [q |-> 99, s |-> 99, k |-> 1, cnt |-> 0]>>] @@ 1 :> [total |-> 2, now |-> 0, final |-> FALSE, data |-> <<[q |-> 99, s |-> 99, k |-> 2, cnt |-> 0], [q |-> 99, s |-> 99, k |-> 3, cnt |-> 0]>>]),lstate |-> "FULL",nload |-> 3,outlen |-> 0,nj |-> 0,cvR |-> (0 :> {} @@ 1 :> {}),live |-> 2]),
    ([over |-> FALSE,cur |-> (0 :> 0 @@ 1 :> 0),st |-> (0 :> "READY" @@ 1 :> "READY"),cvU |-> (0 :> {} @@ 1 :> {}),pcw |-> (0 :> "st" @@ 1 :> "st"),born |-> 2,turn |-> 0,pcio |-> "wu0",out |-> <<>>,mtx |-> (0 :> 3 @@ 1 :> 3),node |-> 23,hist |-> (0 :> 0 @@ 1 :> 0),buf |-> (0 :> [total |-> 2, now |-> 0, final |-> FALSE, data |-> <<[q |-> 99, s |-> 99, k |-> 0, cnt |-> 0], [q |-> 99, s |-> 99, k |-> 1, cnt |-> 0]>>] @@ 1 :> [total |-> 2, now |-> 0, final |-> FALSE, data |-> <<[q |-> 99, s |-> 99, k |-> 2, cnt |-> 0], [q |-> 99, s |-> 99, k |-> 3, cnt |-> 0]>>]),lstate |-> "FULL",nload |-> 3,outlen |-> 0,nj |-> 0,cvR |-> (0 :> {} @@ 1 :> {}),live |-> 2]),
    ([over |-> FALSE,cur |-> (0 :> 0 @@ 1 :> 0),st |-> (0 :> "READY" @@ 1 :> "READY"),cvU |-> (0 :> {} @@ 1 :> {}),pcw |-> (0 :> "g0" @@ 1 :> "st"),born |-> 2,turn |-> 0,pcio |-> "wu0",out |-> <<>>,mtx |-> (0 :> 3 @@ 1 :> 3),node |-> 3602,hist |-> (0 :> 0 @@ 1 :> 0),buf |-> (0 :> [total |-> 2, now |-> 0, final |-> FALSE, data |-> <<[q |-> 99, s |-> 99, k |-> 0, cnt |-> 0], [q |-> 99, s |-> 99, k |-> 1, cnt |-> 0]>>] @@ 1 :> [total |-> 2, now |-> 0, final |-> FALSE, data |-> <<[q |-> 99, s |-> 99, k |-> 2, cnt |-> 0], [q |-> 99, s |-> 99, k |-> 3, cnt |-> 0]>>]),lstate |-> "FULL",nload |-> 3,outlen |-> 0,nj |-> 0,cvR |-> (0 :> {} @@ 1 :> {}),live |-> 2]),
    ([over |-> FALSE,cur |-> (0 :> 0 @@ 1 :> 0),st |-> (0 :> "READY" @@ 1 :> "READY"),cvU |-> (0 :> {} @@ 1 :> {}),pcw |-> (0 :> "g1" @@ 1 :> "st"),born |-> 2,turn |-> 0,pcio |-> "wu0",out |-> <<>>,mtx |-> (0 :> 0 @@ 1 :> 3),node |-> 3603,hist |-> (0 :> 0 @@ 1 :> 0),buf |-> (0 :> [total |-> 2, now |-> 0, final |-> FALSE, data |-> <<[q |-> 99, s |-> 99, k |-> 0, cnt |-> 0], [q |-> 99, s |-> 99, k |-> 1, cnt |-> 0]>>] @@ 1 :> [total |-> 2, now |-> 0, final |-> FALSE, data |-> <<[q |-> 99, s |-> 99, k |-> 2, cnt |-> 0], [q |-> 99, s |-> 99, k |-> 3, cnt |-> 0]>>]),lstate |-> "FULL",nload |-> 3,outlen |-> 0,nj |-> 0,cvR |-> (0 :> {} @@ 1 :> {}),live |-> 2]),
    ([over |-> FALSE,cur |-> (0 :> 0 @@ 1 :> 0),st |-> (0 :> "READY" @@ 1 :> "READY"),cvU |-> (0 :> {} @@ 1 :> {}),pcw |-> (0 :> "g2" @@ 1 :> "st"),born |-> 2,turn |-> 0,pcio |-> "wu0",out |-> <<>>,mtx |-> (0 :> 3 @@ 1 :> 3),node |-> 3604,hist |-> (0 :> 0 @@ 1 :> 0),buf |-> (0 :> [total |-> 2, now |-> 0, final |-> FALSE, data |-> <<[q |-> 99, s |-> 99, k |-> 0, cnt |-> 0], [q |-> 99, s |-> 99, k |-> 1, cnt |-> 0]>>] @@ 1 :> [total |-> 2, now |-> 0, final |-> FALSE, data |-> <<[q |-> 99, s |-> 99, k |-> 2, cnt |-> 0], [q |-> 99, s |-> 99, k |-> 3, cnt |-> 0]>>]),lstate |-> "FULL",nload |-> 3,outlen |-> 0,nj |-> 0,cvR |-> (0 :> {} @@ 1 :> {}),live |-> 2]),
    ([over |-> FALSE,cur |-> (0 :> 0 @@ 1 :> 0),st |-> (0 :> "READY" @@ 1 :> "READY"),cvU |-> (0 :> {} @@ 1 :> {}),pcw |-> (0 :> "ge" @@ 1 :> "st"),born |-> 2,turn |-> 0,pcio |-> "wu0",out |-> <<>>,mtx |-> (0 :> 3 @@ 1 :> 3),node |-> 3619,hist |-> (0 :> 0 @@ 1 :> 0),buf |-> (0 :> [total |-> 2, now |-> 0, final |-> FALSE, data |-> <<[q |-> 99, s |-> 99, k |-> 0, cnt |-> 0], [q |-> 99, s |-> 99, k |-> 1, cnt |-> 0]>>] @@ 1 :> [total |-> 2, now |-> 0, final |-> FALSE, data |-> <<[q |-> 99, s |-> 99, k |-> 2, cnt |-> 0], [q |-> 99, s |-> 99, k |-> 3, cnt |-> 0]>>]),lstate |-> "FULL",nload |-> 3,outlen |-> 0,nj |-> 0,cvR |-> (0 :> {} @@ 1 :> {}),live |-> 2]),
    ([over |-> FALSE,cur |-> (0 :> 1 @@ 1 :> 0),st |-> (0 :> "READY" @@ 1 :> "READY"),cvU |-> (0 :> {} @@ 1 :> {}),pcw |-> (0 :> "cry" @@ 1 :> "st"),born |-> 2,turn |-> 0,pcio |-> "wu0",out |-> <<>>,mtx |-> (0 :> 3 @@ 1 :> 3),node |-> 3620,hist |-> (0 :> 0 @@ 1 :> 0),buf |-> (0 :> [total |-> 2, now |-> 1, final |-> FALSE, data |-> <<[q |-> 99, s |-> 99, k |-> 0, cnt |-> 0], [q |-> 99, s |-> 99, k |-> 1, cnt |-> 0]>>] @@ 1 :> [total |-> 2, now |-> 0, final |-> FALSE, data |-> <<[q |-> 99, s |-> 99, k |-> 2, cnt |-> 0], [q |-> 99, s |-> 99, k |-> 3, cnt |-> 0]>>]),lstate |-> "FULL",nload |-> 3,outlen |-> 0,nj |-> 0,cvR |-> (0 :> {} @@ 1 :> {}),live |-> 2]),
    ([over |-> FALSE,cur |-> (0 :> 1 @@ 1 :> 0),st |-> (0 :> "READY" @@ 1 :> "READY"),cvU |-> (0 :> {} @@ 1 :> {}),pcw |-> (0 :> "ge" @@ 1 :> "st"),born |-> 2,turn |-> 0,pcio |-> "wu0",out |-> <<>>,mtx |-> (0 :> 3 @@ 1 :> 3),node |-> 3621,hist |-> (0 :> 1 @@ 1 :> 0),buf |-> (0 :> [total |-> 2, now |-> 1, final |-> FALSE, data |-> <<[q |-> 0, s |-> 0, k |-> 0, cnt |-> 1], [q |-> 99, s |-> 99, k |-> 1, cnt |-> 0]>>] @@ 1 :> [total |-> 2, now |-> 0, final |-> FALSE, data |-> <<[q |-> 99, s |-> 99, k |-> 2, cnt |-> 0], [q |-> 99, s |-> 99, k |-> 3, cnt |-> 0]>>]),lstate |-> "FULL",nload |-> 3,outlen |-> 0,nj |-> 0,cvR |-> (0 :> {} @@ 1 :> {}),live |-> 2]),
    ([over |-> FALSE,cur |-> (0 :> 2 @@ 1 :> 0),st |-> (0 :> "READY" @@ 1 :> "READY"),cvU |-> (0 :> {} @@ 1 :> {}),pcw |-> (0 :> "cry" @@ 1 :> "st"),born |-> 2,turn |-> 0,pcio |-> "wu0",out |-> <<>>,mtx |-> (0 :> 3 @@ 1 :> 3),node |-> 3622,hist |-> (0 :> 1 @@ 1 :> 0),buf |-> (0 :> [total |-> 2, now |-> 2, final |-> FALSE, data |-> <<[q |-> 0, s |-> 0, k |-> 0, cnt |-> 1], [q |-> 99, s |-> 99, k |-> 1, cnt |-> 0]>>] @@ 1 :> [total |-> 2, now |-> 0, final |-> FALSE, data |-> <<[q |-> 99, s |-> 99, k |-> 2, cnt |-> 0], [q |-> 99, s |-> 99, k |-> 3, cnt |-> 0]>>]),lstate |-> "FULL",nload |-> 3,outlen |-> 0,nj |-> 0,cvR |-> (0 :> {} @@ 1 :> {}),live |-> 2]),
    ([over |-> FALSE,cur |-> (0 :> 2 @@ 1 :> 0),st |-> (0 :> "READY" @@ 1 :> "READY"),cvU |-> (0 :> {} @@ 1 :> {}),pcw |-> (0 :> "ge" @@ 1 :> "st"),born |-> 2,turn |-> 0,pcio |-> "wu0",out |-> <<>>,mtx |-> (0 :> 3 @@ 1 :> 3),node |-> 3623,hist |-> (0 :> 2 @@ 1 :> 0),buf |-> (0 :> [total |-> 2, now |-> 2, final |-> FALSE, data |-> <<[q |-> 0, s |-> 0, k |-> 0, cnt |-> 1], [q |-> 1, s |-> 0, k |-> 1, cnt |-> 1]>>] @@ 1 :> [total |-> 2, now |-> 0, final |-> FALSE, data |-> <<[q |-> 99, s |-> 99, k |-> 2, cnt |-> 0], [q |-> 99, s |-> 99, k |-> 3, cnt |-> 0]>>]),lstate |-> "FULL",nload |-> 3,outlen |-> 0,nj |-> 0,cvR |-> (0 :> {} @@ 1 :> {}),live |-> 2]),
    ([over |-> FALSE,cur |-> (0 :> 2 @@ 1 :> 0),st |-> (0 :> "READY" @@ 1 :> "READY"),cvU |-> (0 :> {} @@ 1 :> {}),pcw |-> (0 :> "su0" @@ 1 :> "st"),born |-> 2,turn |-> 0,pcio |-> "wu0",out |-> <<>>,mtx |-> (0 :> 3 @@ 1 :> 3),node |-> 3624,hist |-> (0 :> 2 @@ 1 :> 0),buf |-> (0 :> [total |-> 2, now |-> 2, final |-> FALSE, data |-> <<[q |-> 0, s |-> 0, k |-> 0, cnt |-> 1], [q |-> 1, s |-> 0, k |-> 1, cnt |-> 1]>>] @@ 1 :> [total |-> 2, now |-> 0, final |-> FALSE, data |-> <<[q |-> 99, s |-> 99, k |-> 2, cnt |-> 0], [q |-> 99, s |-> 99, k |-> 3, cnt |-> 0]>>]),lstate |-> "FULL",nload |-> 3,outlen |-> 0,nj |-> 0,cvR |-> (0 :> {} @@ 1 :> {}),live |-> 2]),
    ([over |-> FALSE,cur |-> (0 :> 2 @@ 1 :> 0),st |-> (0 :> "READY" @@ 1 :> "READY"),cvU |-> (0 :> {} @@ 1 :> {}),pcw |-> (0 :> "su1" @@ 1 :> "st"),born |-> 2,turn |-> 0,pcio |-> "wu0",out |-> <<>>,mtx |-> (0 :> 0 @@ 1 :> 3),node |-> 3625,hist |-> (0 :> 2 @@ 1 :> 0),buf |-> (0 :> [total |-> 2, now |-> 2, final |-> FALSE, data |-> <<[q |-> 0, s |-> 0, k |-> 0, cnt |-> 1], [q |-> 1, s |-> 0, k |-> 1, cnt |-> 1]>>] @@ 1 :> [total |-> 2, now |-> 0, final |-> FALSE, data |-> <<[q |-> 99, s |-> 99, k |-> 2, cnt |-> 0], [q |-> 99, s |-> 99, k |-> 3, cnt |-> 0]>>]),lstate |-> "FULL",nload |-> 3,outlen |-> 0,nj |-> 0,cvR |-> (0 :> {} @@ 1 :> {}),live |-> 2]),
    ([over |-> FALSE,cur |-> (0 :> 2 @@ 1 :> 0),st |-> (0 :> "UPDATING" @@ 1 :> "READY"),cvU |-> (0 :> {} @@ 1 :> {}),pcw |-> (0 :> "su2" @@ 1 :> "st"),born |-> 2,turn |-> 0,pcio |-> "wu0",out |-> <<>>,mtx |-> (0 :> 3 @@ 1 :> 3),node |-> 3626,hist |-> (0 :> 2 @@ 1 :> 0),buf |-> (0 :> [total |-> 2, now |-> 2, final |-> FALSE, data |-> <<[q |-> 0, s |-> 0, k |-> 0, cnt |-> 1], [q |-> 1, s |-> 0, k |-> 1, cnt |-> 1]>>] @@ 1 :> [total |-> 2, now |-> 0, final |-> FALSE, data |-> <<[q |-> 99, s |-> 99, k |-> 2, cnt |-> 0], [q |-> 99, s |-> 99, k |-> 3, cnt |-> 0]>>]),lstate |-> "FULL",nload |-> 3,outlen |-> 0,nj |-> 0,cvR |-> (0 :> {} @@ 1 :> {}),live |-> 2]),
    ([over |-> FALSE,cur |-> (0 :> 2 @@ 1 :> 0),st |-> (0 :> "UPDATING" @@ 1 :> "READY"),cvU |-> (0 :> {} @@ 1 :> {}),pcw |-> (0 :> "su2" @@ 1 :> "st"),born |-> 2,turn |-> 0,pcio |-> "wu1",out |-> <<>>,mtx |-> (0 :> 2 @@ 1 :> 3),node |-> 3627,hist |-> (0 :> 2 @@ 1 :> 0),buf |-> (0 :> [total |-> 2, now |-> 2, final |-> FALSE, data |-> <<[q |-> 0, s |-> 0, k |-> 0, cnt |-> 1], [q |-> 1, s |-> 0, k |-> 1, cnt |-> 1]>>] @@ 1 :> [total |-> 2, now |-> 0, final |-> FALSE, data |-> <<[q |-> 99, s |-> 99, k |-> 2, cnt |-> 0], [q |-> 99, s |-> 99, k |-> 3, cnt |-> 0]>>]),lstate |-> "FULL",nload |-> 3,outlen |-> 0,nj |-> 0,cvR |-> (0 :> {} @@ 1 :> {}),live |-> 2]),
    ([over |-> FALSE,cur |-> (0 :> 2 @@ 1 :> 0),st |-> (0 :> "UPDATING" @@ 1 :> "READY"),cvU |-> (0 :> {} @@ 1 :> {}),pcw |-> (0 :> "su2" @@ 1 :> "st"),born |-> 2,turn |-> 0,pcio |-> "wu2",out |-> <<>>,mtx |-> (0 :> 3 @@ 1 :> 3),node |-> 38,hist |-> (0 :> 2 @@ 1 :> 0),buf |-> (0 :> [total |-> 2, now |-> 2, final |-> FALSE, data |-> <<[q |-> 0, s |-> 0, k |-> 0, cnt |-> 1], [q |-> 1, s |-> 0, k |-> 1, cnt |-> 1]>>] @@ 1 :> [total |-> 2, now |-> 0, final |-> FALSE, data |-> <<[q |-> 99, s |-> 99, k |-> 2, cnt |-> 0], [q |-> 99, s |-> 99, k |-> 3, cnt |-> 0]>>]),lstate |-> "FULL",nload |-> 3,outlen |-> 0,nj |-> 0,cvR |-> (0 :> {} @@ 1 :> {}),live |-> 2]),
    ([over |-> FALSE,cur |-> (0 :> 2 @@ 1 :> 0),st |-> (0 :> "UPDATING" @@ 1 :> "READY"),cvU |-> (0 :> {} @@ 1 :> {}),pcw |-> (0 :> "su2" @@ 1 :> "st"),born |-> 2,turn |-> 0,pcio |-> "bu",out |-> <<>>,mtx |-> (0 :> 3 @@ 1 :> 3),node |-> 39,hist |-> (0 :> 2 @@ 1 :> 0),buf |-> (0 :> [total |-> 2, now |-> 2, final |-> FALSE, data |-> <<[q |-> 0, s |-> 0, k |-> 0, cnt |-> 1], [q |-> 1, s |-> 0, k |-> 1, cnt |-> 1]>>] @@ 1 :> [total |-> 2, now |-> 0, final |-> FALSE, data |-> <<[q |-> 99, s |-> 99, k |-> 2, cnt |-> 0], [q |-> 99, s |-> 99, k |-> 3, cnt |-> 0]>>]),lstate |-> "FULL",nload |-> 3,outlen |-> 0,nj |-> 0,cvR |-> (0 :> {} @@ 1 :> {}),live |-> 2]),
    ([over |-> FALSE,cur |-> (0 :> 2 @@ 1 :> 0),st |-> (0 :> "UPDATING" @@ 1 :> "READY"),cvU |-> (0 :> {} @@ 1 :> {}),pcw |-> (0 :> "su2" @@ 1 :> "st"),born |-> 2,turn |-> 0,pcio |-> "ex0",out |-> <<>>,mtx |-> (0 :> 3 @@ 1 :> 3),node |-> 40,hist |-> (0 :> 2 @@ 1 :> 0),buf |-> (0 :> [total |-> 2, now |-> 2, final |-> FALSE, data |-> <<[q |-> 0, s |-> 0, k |-> 0, cnt |-> 1], [q |-> 1, s |-> 0, k |-> 1, cnt |-> 1]>>] @@ 1 :> [total |-> 2, now |-> 0, final |-> FALSE, data |-> <<[q |-> 99, s |-> 99, k |-> 2, cnt |-> 0], [q |-> 99, s |-> 99, k |-> 3, cnt |-> 0]>>]),lstate |-> "NODATA",nload |-> 3,outlen |-> 0,nj |-> 0,cvR |-> (0 :> {} @@ 1 :> {}),live |-> 2]),
    ([over |-> FALSE,cur |-> (0 :> 2 @@ 1 :> 0),st |-> (0 :> "UPDATING" @@ 1 :> "READY"),cvU |-> (0 :> {} @@ 1 :> {}),pcw |-> (0 :> "su2" @@ 1 :> "st"),born |-> 2,turn |-> 0,pcio |-> "ex1",out |-> <<[q |-> 0, s |-> 0, k |-> 0, cnt |-> 1], [q |-> 1, s |-> 0, k |-> 1, cnt |-> 1]>>,mtx |-> (0 :> 3 @@ 1 :> 3),node |-> 41,hist |-> (0 :> 2 @@ 1 :> 0),buf |-> (0 :> [total |-> 2, now |-> 2, final |-> FALSE, data |-> <<[q |-> 0, s |-> 0, k |-> 0, cnt |-> 1], [q |-> 1, s |-> 0, k |-> 1, cnt |-> 1]>>] @@ 1 :> [total |-> 2, now |-> 0, final |-> FALSE, data |-> <<[q |-> 99, s |-> 99, k |-> 2, cnt |-> 0], [q |-> 99, s |-> 99, k |-> 3, cnt |-> 0]>>]),lstate |-> "NODATA",nload |-> 3,outlen |-> 32,nj |-> 0,cvR |-> (0 :> {} @@ 1 :> {}),live |-> 2]),
    ([over |-> FALSE,cur |-> (0 :> 2 @@ 1 :> 0),st |-> (0 :> "UPDATING" @@ 1 :> "READY"),cvU |-> (0 :> {} @@ 1 :> {}),pcw |-> (0 :> "su2" @@ 1 :> "st"),born |-> 2,turn |-> 0,pcio |-> "ld0",out |-> <<[q |-> 0, s |-> 0, k |-> 0, cnt |-> 1], [q |-> 1, s |-> 0, k |-> 1, cnt |-> 1]>>,mtx |-> (0 :> 3 @@ 1 :> 3),node |-> 42,hist |-> (0 :> 2 @@ 1 :> 0),buf |-> (0 :> [total |-> 2, now |-> 2, final |-> FALSE, data |-> <<[q |-> 0, s |-> 0, k |-> 0, cnt |-> 1], [q |-> 1, s |-> 0, k |-> 1, cnt |-> 1]>>] @@ 1 :> [total |-> 2, now |-> 0, final |-> FALSE, data |-> <<[q |-> 99, s |-> 99, k |-> 2, cnt |-> 0], [q |-> 99, s |-> 99, k |-> 3, cnt |-> 0]>>]),lstate |-> "NODATA",nload |-> 3,outlen |-> 32,nj |-> 0,cvR |-> (0 :> {} @@ 1 :> {}),live |-> 2]),
    ([over |-> FALSE,cur |-> (0 :> 2 @@ 1 :> 0),st |-> (0 :> "UPDATING" @@ 1 :> "READY"),cvU |-> (0 :> {} @@ 1 :> {}),pcw |-> (0 :> "su2" @@ 1 :> "st"),born |-> 2,turn |-> 0,pcio |-> "ld1",out |-> <<[q |-> 0, s |-> 0, k |-> 0, cnt |-> 1], [q |-> 1, s |-> 0, k |-> 1, cnt |-> 1]>>,mtx |-> (0 :> 3 @@ 1 :> 3),node |-> 43,hist |-> (0 :> 2 @@ 1 :> 0),buf |-> (0 :> [total |-> 1, now |-> 0, final |-> TRUE, data |-> <<[q |-> 99, s |-> 99, k |-> 4, cnt |-> 0]>>] @@ 1 :> [total |-> 2, now |-> 0, final |-> FALSE, data |-> <<[q |-> 99, s |-> 99, k |-> 2, cnt |-> 0], [q |-> 99, s |-> 99, k |-> 3, cnt |-> 0]>>]),lstate |-> "FINAL",nload |-> 4,outlen |-> 32,nj |-> 0,cvR |-> (0 :> {} @@ 1 :> {}),live |-> 2]),
    ([over |-> TRUE,cur |-> (0 :> 2 @@ 1 :> 0),st |-> (0 :> "UPDATING" @@ 1 :> "READY"),cvU |-> (0 :> {} @@ 1 :> {}),pcw |-> (0 :> "su2" @@ 1 :> "st"),born |-> 2,turn |-> 0,pcio |-> "sr0",out |-> <<[q |-> 0, s |-> 0, k |-> 0, cnt |-> 1], [q |-> 1, s |-> 0, k |-> 1, cnt |-> 1]>>,mtx |-> (0 :> 3 @@ 1 :> 3),node |-> 44,hist |-> (0 :> 2 @@ 1 :> 0),buf |-> (0 :> [total |-> 1, now |-> 0, final |-> TRUE, data |-> <<[q |-> 99, s |-> 99, k |-> 4, cnt |-> 0]>>] @@ 1 :> [total |-> 2, now |-> 0, final |-> FALSE, data |-> <<[q |-> 99, s |-> 99, k |-> 2, cnt |-> 0], [q |-> 99, s |-> 99, k |-> 3, cnt |-> 0]>>]),lstate |-> "FINAL",nload |-> 4,outlen |-> 32,nj |-> 0,cvR |-> (0 :> {} @@ 1 :> {}),live |-> 2]),
    ([over |-> TRUE,cur |-> (0 :> 2 @@ 1 :> 0),st |-> (0 :> "UPDATING" @@ 1 :> "READY"),cvU |-> (0 :> {} @@ 1 :> {}),pcw |-> (0 :> "su2" @@ 1 :> "st"),born |-> 2,turn |-> 0,pcio |-> "sr1",out |-> <<[q |-> 0, s |-> 0, k |-> 0, cnt |-> 1], [q |-> 1, s |-> 0, k |-> 1, cnt |-> 1]>>,mtx |-> (0 :> 2 @@ 1 :> 3),node |-> 45,hist |-> (0 :> 2 @@ 1 :> 0),buf |-> (0 :> [total |-> 1, now |-> 0, final |-> TRUE, data |-> <<[q |-> 99, s |-> 99, k |-> 4, cnt |-> 0]>>] @@ 1 :> [total |-> 2, now |-> 0, final |-> FALSE, data |-> <<[q |-> 99, s |-> 99, k |-> 2, cnt |-> 0], [q |-> 99, s |-> 99, k |-> 3, cnt |-> 0]>>]),lstate |-> "FINAL",nload |-> 4,outlen |-> 32,nj |-> 0,cvR |-> (0 :> {} @@ 1 :> {}),live |-> 2]),
    ([over |-> TRUE,cur |-> (0 :> 2 @@ 1 :> 0),st |-> (0 :> "READY" @@ 1 :> "READY"),cvU |-> (0 :> {} @@ 1 :> {}),pcw |-> (0 :> "su2" @@ 1 :> "st"),born |-> 2,turn |-> 0,pcio |-> "sr2",out |-> <<[q |-> 0, s |-> 0, k |-> 0, cnt |-> 1], [q |-> 1, s |-> 0, k |-> 1, cnt |-> 1]>>,mtx |-> (0 :> 3 @@ 1 :> 3),node |-> 46,hist |-> (0 :> 2 @@ 1 :> 0),buf |-> (0 :> [total |-> 1, now |-> 0, final |-> TRUE, data |-> <<[q |-> 99, s |-> 99, k |-> 4, cnt |-> 0]>>] @@ 1 :> [total |-> 2, now |-> 0, final |-> FALSE, data |-> <<[q |-> 99, s |-> 99, k |-> 2, cnt |-> 0], [q |-> 99, s |-> 99, k |-> 3, cnt |-> 0]>>]),lstate |-> "FINAL",nload |-> 4,outlen |-> 32,nj |-> 0,cvR |-> (0 :> {} @@ 1 :> {}),live |-> 2]),
    ([over |-> TRUE,cur |-> (0 :> 2 @@ 1 :> 0),st |-> (0 :> "READY" @@ 1 :> "READY"),cvU |-> (0 :> {} @@ 1 :> {}),pcw |-> (0 :> "su2" @@ 1 :> "st"),born |-> 2,turn |-> 0,pcio |-> "ti",out |-> <<[q |-> 0, s |-> 0, k |-> 0, cnt |-> 1], [q |-> 1, s |-> 0, k |-> 1, cnt |-> 1]>>,mtx |-> (0 :> 3 @@ 1 :> 3),node |-> 47,hist |-> (0 :> 2 @@ 1 :> 0),buf |-> (0 :> [total |-> 1, now |-> 0, final |-> TRUE, data |-> <<[q |-> 99, s |-> 99, k |-> 4, cnt |-> 0]>>] @@ 1 :> [total |-> 2, now |-> 0, final |-> FALSE, data |-> <<[q |-> 99, s |-> 99, k |-> 2, cnt |-> 0], [q |-> 99, s |-> 99, k |-> 3, cnt |-> 0]>>]),lstate |-> "FINAL",nload |-> 4,outlen |-> 32,nj |-> 0,cvR |-> (0 :> {} @@ 1 :> {}),live |-> 2]),
    ([over |-> TRUE,cur |-> (0 :> 2 @@ 1 :> 0),st |-> (0 :> "READY" @@ 1 :> "READY"),cvU |-> (0 :> {} @@ 1 :> {}),pcw |-> (0 :> "su2" @@ 1 :> "st"),born |-> 2,turn |-> 1,pcio |-> "wu0",out |-> <<[q |-> 0, s |-> 0, k |-> 0, cnt |-> 1], [q |-> 1, s |-> 0, k |-> 1, cnt |-> 1]>>,mtx |-> (0 :> 3 @@ 1 :> 3),node |-> 48,hist |-> (0 :> 2 @@ 1 :> 0),buf |-> (0 :> [total |-> 1, now |-> 0, final |-> TRUE, data |-> <<[q |-> 99, s |-> 99, k |-> 4, cnt |-> 0]>>] @@ 1 :> [total |-> 2, now |-> 0, final |-> FALSE, data |-> <<[q |-> 99, s |-> 99, k |-> 2, cnt |-> 0], [q |-> 99, s |-> 99, k |-> 3, cnt |-> 0]>>]),lstate |-> "FINAL",nload |-> 4,outlen |-> 32,nj |-> 0,cvR |-> (0 :> {} @@ 1 :> {}),live |-> 2]),
    ([over |-> TRUE,cur |-> (0 :> 2 @@ 1 :> 0),st |-> (0 :> "READY" @@ 1 :> "READY"),cvU |-> (0 :> {} @@ 1 :> {}),pcw |-> (0 :> "done" @@ 1 :> "st"),born |-> 2,turn |-> 1,pcio |-> "wu0",out |-> <<[q |-> 0, s |-> 0, k |-> 0, cnt |-> 1], [q |-> 1, s |-> 0, k |-> 1, cnt |-> 1]>>,mtx |-> (0 :> 3 @@ 1 :> 3),node |-> 293,hist |-> (0 :> 2 @@ 1 :> 0),buf |-> (0 :> [total |-> 1, now |-> 0, final |-> TRUE, data |-> <<[q |-> 99, s |-> 99, k |-> 4, cnt |-> 0]>>] @@ 1 :> [total |-> 2, now |-> 0, final |-> FALSE, data |-> <<[q |-> 99, s |-> 99, k |-> 2, cnt |-> 0], [q |-> 99, s |-> 99, k |-> 3, cnt |-> 0]>>]),lstate |-> "FINAL",nload |-> 4,outlen |-> 32,nj |-> 0,cvR |-> (0 :> {} @@ 1 :> {}),live |-> 2]),
    ([over |-> TRUE,cur |-> (0 :> 2 @@ 1 :> 0),st |-> (0 :> "READY" @@ 1 :> "READY"),cvU |-> (0 :> {} @@ 1 :> {}),pcw |-> (0 :> "done" @@ 1 :> "g0"),born |-> 2,turn |-> 1,pcio |-> "wu0",out |-> <<[q |-> 0, s |-> 0, k |-> 0, cnt |-> 1], [q |-> 1, s |-> 0, k |-> 1, cnt |-> 1]>>,mtx |-> (0 :> 3 @@ 1 :> 3),node |-> 292,hist |-> (0 :> 2 @@ 1 :> 0),buf |-> (0 :> [total |-> 1, now |-> 0, final |-> TRUE, data |-> <<[q |-> 99, s |-> 99, k |-> 4, cnt |-> 0]>>] @@ 1 :> [total |-> 2, now |-> 0, final |-> FALSE, data |-> <<[q |-> 99, s |-> 99, k |-> 2, cnt |-> 0], [q |-> 99, s |-> 99, k |-> 3, cnt |-> 0]>>]),lstate |-> "FINAL",nload |-> 4,outlen |-> 32,nj |-> 0,cvR |-> (0 :> {} @@ 1 :> {}),live |-> 2]),
    ([over |-> TRUE,cur |-> (0 :> 2 @@ 1 :> 0),st |-> (0 :> "READY" @@ 1 :> "READY"),cvU |-> (0 :> {} @@ 1 :> {}),pcw |-> (0 :> "done" @@ 1 :> "g1"),born |-> 2,turn |-> 1,pcio |-> "wu0",out |-> <<[q |-> 0, s |-> 0, k |-> 0, cnt |-> 1], [q |-> 1, s |-> 0, k |-> 1, cnt |-> 1]>>,mtx |-> (0 :> 3 @@ 1 :> 1),node |-> 231,hist |-> (0 :> 2 @@ 1 :> 0),buf |-> (0 :> [total |-> 1, now |-> 0, final |-> TRUE, data |-> <<[q |-> 99, s |-> 99, k |-> 4, cnt |-> 0]>>] @@ 1 :> [total |-> 2, now |-> 0, final |-> FALSE, data |-> <<[q |-> 99, s |-> 99, k |-> 2, cnt |-> 0], [q |-> 99, s |-> 99, k |-> 3, cnt |-> 0]>>]),lstate |-> "FINAL",nload |-> 4,outlen |-> 32,nj |-> 0,cvR |-> (0 :> {} @@ 1 :> {}),live |-> 2]),
    ([over |-> TRUE,cur |-> (0 :> 2 @@ 1 :> 0),st |-> (0 :> "READY" @@ 1 :> "READY"),cvU |-> (0 :> {} @@ 1 :> {}),pcw |-> (0 :> "done" @@ 1 :> "g2"),born |-> 2,turn |-> 1,pcio |-> "wu0",out |-> <<[q |-> 0, s |-> 0, k |-> 0, cnt |-> 1], [q |-> 1, s |-> 0, k |-> 1, cnt |-> 1]>>,mtx |-> (0 :> 3 @@ 1 :> 3),node |-> 232,hist |-> (0 :> 2 @@ 1 :> 0),buf |-> (0 :> [total |-> 1, now |-> 0, final |-> TRUE, data |-> <<[q |-> 99, s |-> 99, k |-> 4, cnt |-> 0]>>] @@ 1 :> [total |-> 2, now |-> 0, final |-> FALSE, data |-> <<[q |-> 99, s |-> 99, k |-> 2, cnt |-> 0], [q |-> 99, s |-> 99, k |-> 3, cnt |-> 0]>>]),lstate |-> "FINAL",nload |-> 4,outlen |-> 32,nj |-> 0,cvR |-> (0 :> {} @@ 1 :> {}),live |-> 2]),
    ([over |-> TRUE,cur |-> (0 :> 2 @@ 1 :> 0),st |-> (0 :> "READY" @@ 1 :> "READY"),cvU |-> (0 :> {} @@ 1 :> {}),pcw |-> (0 :> "done" @@ 1 :> "ge"),born |-> 2,turn |-> 1,pcio |-> "wu0",out |-> <<[q |-> 0, s |-> 0, k |-> 0, cnt |-> 1], [q |-> 1, s |-> 0, k |-> 1, cnt |-> 1]>>,mtx |-> (0 :> 3 @@ 1 :> 3),node |-> 247,hist |-> (0 :> 2 @@ 1 :> 0),buf |-> (0 :> [total |-> 1, now |-> 0, final |-> TRUE, data |-> <<[q |-> 99, s |-> 99, k |-> 4, cnt |-> 0]>>] @@ 1 :> [total |-> 2, now |-> 0, final |-> FALSE, data |-> <<[q |-> 99, s |-> 99, k |-> 2, cnt |-> 0], [q |-> 99, s |-> 99, k |-> 3, cnt |-> 0]>>]),lstate |-> "FINAL",nload |-> 4,outlen |-> 32,nj |-> 0,cvR |-> (0 :> {} @@ 1 :> {}),live |-> 2]),
    ([over |-> TRUE,cur |-> (0 :> 2 @@ 1 :> 1),st |-> (0 :> "READY" @@ 1 :> "READY"),cvU |-> (0 :> {} @@ 1 :> {}),pcw |-> (0 :> "done" @@ 1 :> "cry"),born |-> 2,turn |-> 1,pcio |-> "wu0",out |-> <<[q |-> 0, s |-> 0, k |-> 0, cnt |-> 1], [q |-> 1, s |-> 0, k |-> 1, cnt |-> 1]>>,mtx |-> (0 :> 3 @@ 1 :> 3),node |-> 248,hist |-> (0 :> 2 @@ 1 :> 0),buf |-> (0 :> [total |-> 1, now |-> 0, final |-> TRUE, data |-> <<[q |-> 99, s |-> 99, k |-> 4, cnt |-> 0]>>] @@ 1 :> [total |-> 2, now |-> 1, final |-> FALSE, data |-> <<[q |-> 99, s |-> 99, k |-> 2, cnt |-> 0], [q |-> 99, s |-> 99, k |-> 3, cnt |-> 0]>>]),lstate |-> "FINAL",nload |-> 4,outlen |-> 32,nj |-> 0,cvR |-> (0 :> {} @@ 1 :> {}),live |-> 2]),
    ([over |-> TRUE,cur |-> (0 :> 2 @@ 1 :> 1),st |-> (0 :> "READY" @@ 1 :> "READY"),cvU |-> (0 :> {} @@ 1 :> {}),pcw |-> (0 :> "done" @@ 1 :> "ge"),born |-> 2,turn |-> 1,pcio |-> "wu0",out |-> <<[q |-> 0, s |-> 0, k |-> 0, cnt |-> 1], [q |-> 1, s |-> 0, k |-> 1, cnt |-> 1]>>,mtx |-> (0 :> 3 @@ 1 :> 3),node |-> 249,hist |-> (0 :> 2 @@ 1 :> 1),buf |-> (0 :> [total |-> 1, now |-> 0, final |-> TRUE, data |-> <<[q |-> 99, s |-> 99, k |-> 4, cnt |-> 0]>>] @@ 1 :> [total |-> 2, now |-> 1, final |-> FALSE, data |-> <<[q |-> 0, s |-> 1, k |-> 2, cnt |-> 1], [q |-> 99, s |-> 99, k |-> 3, cnt |-> 0]>>]),lstate |-> "FINAL",nload |-> 4,outlen |-> 32,nj |-> 0,cvR |-> (0 :> {} @@ 1 :> {}),live |-> 2]),
    ([over |-> TRUE,cur |-> (0 :> 2 @@ 1 :> 2),st |-> (0 :> "READY" @@ 1 :> "READY"),cvU |-> (0 :> {} @@ 1 :> {}),pcw |-> (0 :> "done" @@ 1 :> "cry"),born |-> 2,turn |-> 1,pcio |-> "wu0",out |-> <<[q |-> 0, s |-> 0, k |-> 0, cnt |-> 1], [q |-> 1, s |-> 0, k |-> 1, cnt |-> 1]>>,mtx |-> (0 :> 3 @@ 1 :> 3),node |-> 250,hist |-> (0 :> 2 @@ 1 :> 1),buf |-> (0 :> [total |-> 1, now |-> 0, final |-> TRUE, data |-> <<[q |-> 99, s |-> 99, k |-> 4, cnt |-> 0]>>] @@ 1 :> [total |-> 2, now |-> 2, final |-> FALSE, data |-> <<[q |-> 0, s |-> 1, k |-> 2, cnt |-> 1], [q |-> 99, s |-> 99, k |-> 3, cnt |-> 0]>>]),lstate |-> "FINAL",nload |-> 4,outlen |-> 32,nj |-> 0,cvR |-> (0 :> {} @@ 1 :> {}),live |-> 2]),
    ([over |-> TRUE,cur |-> (0 :> 2 @@ 1 :> 2),st |-> (0 :> "READY" @@ 1 :> "READY"),cvU |-> (0 :> {} @@ 1 :> {}),pcw |-> (0 :> "done" @@ 1 :> "ge"),born |-> 2,turn |-> 1,pcio |-> "wu0",out |-> <<[q |-> 0, s |-> 0, k |-> 0, cnt |-> 1], [q |-> 1, s |-> 0, k |-> 1, cnt |-> 1]>>,mtx |-> (0 :> 3 @@ 1 :> 3),node |-> 251,hist |-> (0 :> 2 @@ 1 :> 2),buf |-> (0 :> [total |-> 1, now |-> 0, final |-> TRUE, data |-> <<[q |-> 99, s |-> 99, k |-> 4, cnt |-> 0]>>] @@ 1 :> [total |-> 2, now |-> 2, final |-> FALSE, data |-> <<[q |-> 0, s |-> 1, k |-> 2, cnt |-> 1], [q |-> 1, s |-> 1, k |-> 3, cnt |-> 1]>>]),lstate |-> "FINAL",nload |-> 4,outlen |-> 32,nj |-> 0,cvR |-> (0 :> {} @@ 1 :> {}),live |-> 2]),
    ([over |-> TRUE,cur |-> (0 :> 2 @@ 1 :> 2),st |-> (0 :> "READY" @@ 1 :> "READY"),cvU |-> (0 :> {} @@ 1 :> {}),pcw |-> (0 :> "done" @@ 1 :> "su0"),born |-> 2,turn |-> 1,pcio |-> "wu0",out |-> <<[q |-> 0, s |-> 0, k |-> 0, cnt |-> 1], [q |-> 1, s |-> 0, k |-> 1, cnt |-> 1]>>,mtx |-> (0 :> 3 @@ 1 :> 3),node |-> 252,hist |-> (0 :> 2 @@ 1 :> 2),buf |-> (0 :> [total |-> 1, now |-> 0, final |-> TRUE, data |-> <<[q |-> 99, s |-> 99, k |-> 4, cnt |-> 0]>>] @@ 1 :> [total |-> 2, now |-> 2, final |-> FALSE, data |-> <<[q |-> 0, s |-> 1, k |-> 2, cnt |-> 1], [q |-> 1, s |-> 1, k |-> 3, cnt |-> 1]>>]),lstate |-> "FINAL",nload |-> 4,outlen |-> 32,nj |-> 0,cvR |-> (0 :> {} @@ 1 :> {}),live |-> 2]),
    ([over |-> TRUE,cur |-> (0 :> 2 @@ 1 :> 2),st |-> (0 :> "READY" @@ 1 :> "READY"),cvU |-> (0 :> {} @@ 1 :> {}),pcw |-> (0 :> "done" @@ 1 :> "su1"),born |-> 2,turn |-> 1,pcio |-> "wu0",out |-> <<[q |-> 0, s |-> 0, k |-> 0, cnt |-> 1], [q |-> 1, s |-> 0, k |-> 1, cnt |-> 1]>>,mtx |-> (0 :> 3 @@ 1 :> 1),node |-> 253,hist |-> (0 :> 2 @@ 1 :> 2),buf |-> (0 :> [total |-> 1, now |-> 0, final |-> TRUE, data |-> <<[q |-> 99, s |-> 99, k |-> 4, cnt |-> 0]>>] @@ 1 :> [total |-> 2, now |-> 2, final |-> FALSE, data |-> <<[q |-> 0, s |-> 1, k |-> 2, cnt |-> 1], [q |-> 1, s |-> 1, k |-> 3, cnt |-> 1]>>]),lstate |-> "FINAL",nload |-> 4,outlen |-> 32,nj |-> 0,cvR |-> (0 :> {} @@ 1 :> {}),live |-> 2]),
    ([over |-> TRUE,cur |-> (0 :> 2 @@ 1 :> 2),st |-> (0 :> "READY" @@ 1 :> "UPDATING"),cvU |-> (0 :> {} @@ 1 :> {}),pcw |-> (0 :> "done" @@ 1 :> "su2"),born |-> 2,turn |-> 1,pcio |-> "wu0",out |-> <<[q |-> 0, s |-> 0, k |-> 0, cnt |-> 1], [q |-> 1, s |-> 0, k |-> 1, cnt |-> 1]>>,mtx |-> (0 :> 3 @@ 1 :> 3),node |-> 254,hist |-> (0 :> 2 @@ 1 :> 2),buf |-> (0 :> [total |-> 1, now |-> 0, final |-> TRUE, data |-> <<[q |-> 99, s |-> 99, k |-> 4, cnt |-> 0]>>] @@ 1 :> [total |-> 2, now |-> 2, final |-> FALSE, data |-> <<[q |-> 0, s |-> 1, k |-> 2, cnt |-> 1], [q |-> 1, s |-> 1, k |-> 3, cnt |-> 1]>>]),lstate |-> "FINAL",nload |-> 4,outlen |-> 32,nj |-> 0,cvR |-> (0 :> {} @@ 1 :> {}),live |-> 2]),
    ([over |-> TRUE,cur |-> (0 :> 2 @@ 1 :> 2),st |-> (0 :> "READY" @@ 1 :> "UPDATING"),cvU |-> (0 :> {} @@ 1 :> {}),pcw |-> (0 :> "done" @@ 1 :> "su2"),born |-> 2,turn |-> 1,pcio |-> "wu1",out |-> <<[q |-> 0, s |-> 0, k |-> 0, cnt |-> 1], [q |-> 1, s |-> 0, k |-> 1, cnt |-> 1]>>,mtx |-> (0 :> 3 @@ 1 :> 2),node |-> 255,hist |-> (0 :> 2 @@ 1 :> 2),buf |-> (0 :> [total |-> 1, now |-> 0, final |-> TRUE, data |-> <<[q |-> 99, s |-> 99, k |-> 4, cnt |-> 0]>>] @@ 1 :> [total |-> 2, now |-> 2, final |-> FALSE, data |-> <<[q |-> 0, s |-> 1, k |-> 2, cnt |-> 1], [q |-> 1, s |-> 1, k |-> 3, cnt |-> 1]>>]),lstate |-> "FINAL",nload |-> 4,outlen |-> 32,nj |-> 0,cvR |-> (0 :> {} @@ 1 :> {}),live |-> 2]),
    ([over |-> TRUE,cur |-> (0 :> 2 @@ 1 :> 2),st |-> (0 :> "READY" @@ 1 :> "UPDATING"),cvU |-> (0 :> {} @@ 1 :> {}),pcw |-> (0 :> "done" @@ 1 :> "su2"),born |-> 2,turn |-> 1,pcio |-> "wu2",out |-> <<[q |-> 0, s |-> 0, k |-> 0, cnt |-> 1], [q |-> 1, s |-> 0, k |-> 1, cnt |-> 1]>>,mtx |-> (0 :> 3 @@ 1 :> 3),node |-> 64,hist |-> (0 :> 2 @@ 1 :> 2),buf |-> (0 :> [total |-> 1, now |-> 0, final |-> TRUE, data |-> <<[q |-> 99, s |-> 99, k |-> 4, cnt |-> 0]>>] @@ 1 :> [total |-> 2, now |-> 2, final |-> FALSE, data |-> <<[q |-> 0, s |-> 1, k |-> 2, cnt |-> 1], [q |-> 1, s |-> 1, k |-> 3, cnt |-> 1]>>]),lstate |-> "FINAL",nload |-> 4,outlen |-> 32,nj |-> 0,cvR |-> (0 :> {} @@ 1 :> {}),live |-> 2]),
    ([over |-> TRUE,cur |-> (0 :> 2 @@ 1 :> 2),st |-> (0 :> "READY" @@ 1 :> "UPDATING"),cvU |-> (0 :> {} @@ 1 :> {}),pcw |-> (0 :> "done" @@ 1 :> "su2"),born |-> 2,turn |-> 1,pcio |-> "bu",out |-> <<[q |-> 0, s |-> 0, k |-> 0, cnt |-> 1], [q |-> 1, s |-> 0, k |-> 1, cnt |-> 1]>>,mtx |-> (0 :> 3 @@ 1 :> 3),node |-> 65,hist |-> (0 :> 2 @@ 1 :> 2),buf |-> (0 :> [total |-> 1, now |-> 0, final |-> TRUE, data |-> <<[q |-> 99, s |-> 99, k |-> 4, cnt |-> 0]>>] @@ 1 :> [total |-> 2, now |-> 2, final |-> FALSE, data |-> <<[q |-> 0, s |-> 1, k |-> 2, cnt |-> 1], [q |-> 1, s |-> 1, k |-> 3, cnt |-> 1]>>]),lstate |-> "FINAL",nload |-> 4,outlen |-> 32,nj |-> 0,cvR |-> (0 :> {} @@ 1 :> {}),live |-> 2]),
    ([over |-> TRUE,cur |-> (0 :> 2 @@ 1 :> 2),st |-> (0 :> "READY" @@ 1 :> "UPDATING"),cvU |-> (0 :> {} @@ 1 :> {}),pcw |-> (0 :> "done" @@ 1 :> "su2"),born |-> 2,turn |-> 1,pcio |-> "ex0",out |-> <<[q |-> 0, s |-> 0, k |-> 0, cnt |-> 1], [q |-> 1, s |-> 0, k |-> 1, cnt |-> 1]>>,mtx |-> (0 :> 3 @@ 1 :> 3),node |-> 66,hist |-> (0 :> 2 @@ 1 :> 2),buf |-> (0 :> [total |-> 1, now |-> 0, final |-> TRUE, data |-> <<[q |-> 99, s |-> 99, k |-> 4, cnt |-> 0]>>] @@ 1 :> [total |-> 2, now |-> 2, final |-> FALSE, data |-> <<[q |-> 0, s |-> 1, k |-> 2, cnt |-> 1], [q |-> 1, s |-> 1, k |-> 3, cnt |-> 1]>>]),lstate |-> "NODATA",nload |-> 4,outlen |-> 32,nj |-> 0,cvR |-> (0 :> {} @@ 1 :> {}),live |-> 2]),
    ([over |-> TRUE,cur |-> (0 :> 2 @@ 1 :> 2),st |-> (0 :> "READY" @@ 1 :> "UPDATING"),cvU |-> (0 :> {} @@ 1 :> {}),pcw |-> (0 :> "done" @@ 1 :> "su2"),born |-> 2,turn |-> 1,pcio |-> "ex1",out |-> <<[q |-> 0, s |-> 0, k |-> 0, cnt |-> 1], [q |-> 1, s |-> 0, k |-> 1, cnt |-> 1], [q |-> 0, s |-> 1, k |-> 2, cnt |-> 1], [q |-> 1, s |-> 1, k |-> 3, cnt |-> 1]>>,mtx |-> (0 :> 3 @@ 1 :> 3),node |-> 67,hist |-> (0 :> 2 @@ 1 :> 2),buf |-> (0 :> [total |-> 1, now |-> 0, final |-> TRUE, data |-> <<[q |-> 99, s |-> 99, k |-> 4, cnt |-> 0]>>] @@ 1 :> [total |-> 2, now |-> 2, final |-> FALSE, data |-> <<[q |-> 0, s |-> 1, k |-> 2, cnt |-> 1], [q |-> 1, s |-> 1, k |-> 3, cnt |-> 1]>>]),lstate |-> "NODATA",nload |-> 4,outlen |-> 64,nj |-> 0,cvR |-> (0 :> {} @@ 1 :> {}),live |-> 2]),
    ([over |-> TRUE,cur |-> (0 :> 2 @@ 1 :> 2),st |-> (0 :> "READY" @@ 1 :> "UPDATING"),cvU |-> (0 :> {} @@ 1 :> {}),pcw |-> (0 :> "done" @@ 1 :> "su2"),born |-> 2,turn |-> 1,pcio |-> "sr0",out |-> <<[q |-> 0, s |-> 0, k |-> 0, cnt |-> 1], [q |-> 1, s |-> 0, k |-> 1, cnt |-> 1], [q |-> 0, s |-> 1, k |-> 2, cnt |-> 1], [q |-> 1, s |-> 1, k |-> 3, cnt |-> 1]>>,mtx |-> (0 :> 3 @@ 1 :> 3),node |-> 68,hist |-> (0 :> 2 @@ 1 :> 2),buf |-> (0 :> [total |-> 1, now |-> 0, final |-> TRUE, data |-> <<[q |-> 99, s |-> 99, k |-> 4, cnt |-> 0]>>] @@ 1 :> [total |-> 2, now |-> 2, final |-> FALSE, data |-> <<[q |-> 0, s |-> 1, k |-> 2, cnt |-> 1], [q |-> 1, s |-> 1, k |-> 3, cnt |-> 1]>>]),lstate |-> "NODATA",nload |-> 4,outlen |-> 64,nj |-> 0,cvR |-> (0 :> {} @@ 1 :> {}),live |-> 2]),
    ([over |-> TRUE,cur |-> (0 :> 2 @@ 1 :> 2),st |-> (0 :> "READY" @@ 1 :> "UPDATING"),cvU |-> (0 :> {} @@ 1 :> {}),pcw |-> (0 :> "done" @@ 1 :> "su2"),born |-> 2,turn |-> 1,pcio |-> "sr1",out |-> <<[q |-> 0, s |-> 0, k |-> 0, cnt |-> 1], [q |-> 1, s |-> 0, k |-> 1, cnt |-> 1], [q |-> 0, s |-> 1, k |-> 2, cnt |-> 1], [q |-> 1, s |-> 1, k |-> 3, cnt |-> 1]>>,mtx |-> (0 :> 3 @@ 1 :> 2),node |-> 69,hist |-> (0 :> 2 @@ 1 :> 2),buf |-> (0 :> [total |-> 1, now |-> 0, final |-> TRUE, data |-> <<[q |-> 99, s |-> 99, k |-> 4, cnt |-> 0]>>] @@ 1 :> [total |-> 2, now |-> 2, final |-> FALSE, data |-> <<[q |-> 0, s |-> 1, k |-> 2, cnt |-> 1], [q |-> 1, s |-> 1, k |-> 3, cnt |-> 1]>>]),lstate |-> "NODATA",nload |-> 4,outlen |-> 64,nj |-> 0,cvR |-> (0 :> {} @@ 1 :> {}),live |-> 2]),
    ([over |-> TRUE,cur |-> (0 :> 2 @@ 1 :> 2),st |-> (0 :> "READY" @@ 1 :> "INV"),cvU |-> (0 :> {} @@ 1 :> {}),pcw |-> (0 :> "done" @@ 1 :> "su2"),born |-> 2,turn |-> 1,pcio |-> "sr2",out |-> <<[q |-> 0, s |-> 0, k |-> 0, cnt |-> 1], [q |-> 1, s |-> 0, k |-> 1, cnt |-> 1], [q |-> 0, s |-> 1, k |-> 2, cnt |-> 1], [q |-> 1, s |-> 1, k |-> 3, cnt |-> 1]>>,mtx |-> (0 :> 3 @@ 1 :> 3),node |-> 70,hist |-> (0 :> 2 @@ 1 :> 2),buf |-> (0 :> [total |-> 1, now |-> 0, final |-> TRUE, data |-> <<[q |-> 99, s |-> 99, k |-> 4, cnt |-> 0]>>] @@ 1 :> [total |-> 2, now |-> 2, final |-> FALSE, data |-> <<[q |-> 0, s |-> 1, k |-> 2, cnt |-> 1], [q |-> 1, s |-> 1, k |-> 3, cnt |-> 1]>>]),lstate |-> "NODATA",nload |-> 4,outlen |-> 64,nj |-> 0,cvR |-> (0 :> {} @@ 1 :> {}),live |-> 1]),
    ([over |-> TRUE,cur |-> (0 :> 2 @@ 1 :> 2),st |-> (0 :> "READY" @@ 1 :> "INV"),cvU |-> (0 :> {} @@ 1 :> {}),pcw |-> (0 :> "done" @@ 1 :> "su2"),born |-> 2,turn |-> 1,pcio |-> "ti",out |-> <<[q |-> 0, s |-> 0, k |-> 0, cnt |-> 1], [q |-> 1, s |-> 0, k |-> 1, cnt |-> 1], [q |-> 0, s |-> 1, k |-> 2, cnt |-> 1], [q |-> 1, s |-> 1, k |-> 3, cnt |-> 1]>>,mtx |-> (0 :> 3 @@ 1 :> 3),node |-> 71,hist |-> (0 :> 2 @@ 1 :> 2),buf |-> (0 :> [total |-> 1, now |-> 0, final |-> TRUE, data |-> <<[q |-> 99, s |-> 99, k |-> 4, cnt |-> 0]>>] @@ 1 :> [total |-> 2, now |-> 2, final |-> FALSE, data |-> <<[q |-> 0, s |-> 1, k |-> 2, cnt |-> 1], [q |-> 1, s |-> 1, k |-> 3, cnt |-> 1]>>]),lstate |-> "NODATA",nload |-> 4,outlen |-> 64,nj |-> 0,cvR |-> (0 :> {} @@ 1 :> {}),live |-> 1]),
    ([over |-> TRUE,cur |-> (0 :> 2 @@ 1 :> 2),st |-> (0 :> "READY" @@ 1 :> "INV"),cvU |-> (0 :> {} @@ 1 :> {}),pcw |-> (0 :> "done" @@ 1 :> "su2"),born |-> 2,turn |-> 0,pcio |-> "wu0",out |-> <<[q |-> 0, s |-> 0, k |-> 0, cnt |-> 1], [q |-> 1, s |-> 0, k |-> 1, cnt |-> 1], [q |-> 0, s |-> 1, k |-> 2, cnt |-> 1], [q |-> 1, s |-> 1, k |-> 3, cnt |-> 1]>>,mtx |-> (0 :> 3 @@ 1 :> 3),node |-> 72,hist |-> (0 :> 2 @@ 1 :> 2),buf |-> (0 :> [total |-> 1, now |-> 0, final |-> TRUE, data |-> <<[q |-> 99, s |-> 99, k |-> 4, cnt |-> 0]>>] @@ 1 :> [total |-> 2, now |-> 2, final |-> FALSE, data |-> <<[q |-> 0, s |-> 1, k |-> 2, cnt |-> 1], [q |-> 1, s |-> 1, k |-> 3, cnt |-> 1]>>]),lstate |-> "NODATA",nload |-> 4,outlen |-> 64,nj |-> 0,cvR |-> (0 :> {} @@ 1 :> {}),live |-> 1]),
    ([over |-> TRUE,cur |-> (0 :> 2 @@ 1 :> 2),st |-> (0 :> "READY" @@ 1 :> "INV"),cvU |-> (0 :> {} @@ 1 :> {}),pcw |-> (0 :> "done" @@ 1 :> "su2"),born |-> 2,turn |-> 0,pcio |-> "wu1",out |-> <<[q |-> 0, s |-> 0, k |-> 0, cnt |-> 1], [q |-> 1, s |-> 0, k |-> 1, cnt |-> 1], [q |-> 0, s |-> 1, k |-> 2, cnt |-> 1], [q |-> 1, s |-> 1, k |-> 3, cnt |-> 1]>>,mtx |-> (0 :> 2 @@ 1 :> 3),node |-> 73,hist |-> (0 :> 2 @@ 1 :> 2),buf |-> (0 :> [total |-> 1, now |-> 0, final |-> TRUE, data |-> <<[q |-> 99, s |-> 99, k |-> 4, cnt |-> 0]>>] @@ 1 :> [total |-> 2, now |-> 2, final |-> FALSE, data |-> <<[q |-> 0, s |-> 1, k |-> 2, cnt |-> 1], [q |-> 1, s |-> 1, k |-> 3, cnt |-> 1]>>]),lstate |-> "NODATA",nload |-> 4,outlen |-> 64,nj |-> 0,cvR |-> (0 :> {} @@ 1 :> {}),live |-> 1]),
    ([over |-> TRUE,cur |-> (0 :> 2 @@ 1 :> 2),st |-> (0 :> "READY" @@ 1 :> "INV"),cvU |-> (0 :> {} @@ 1 :> {}),pcw |-> (0 :> "done" @@ 1 :> "su2"),born |-> 2,turn |-> 0,pcio |-> "wup",out |-> <<[q |-> 0, s |-> 0, k |-> 0, cnt |-> 1], [q |-> 1, s |-> 0, k |-> 1, cnt |-> 1], [q |-> 0, s |-> 1, k |-> 2, cnt |-> 1], [q |-> 1, s |-> 1, k |-> 3, cnt |-> 1]>>,mtx |-> (0 :> 2 @@ 1 :> 3),node |-> 74,hist |-> (0 :> 2 @@ 1 :> 2),buf |-> (0 :> [total |-> 1, now |-> 0, final |-> TRUE, data |-> <<[q |-> 99, s |-> 99, k |-> 4, cnt |-> 0]>>] @@ 1 :> [total |-> 2, now |-> 2, final |-> FALSE, data |-> <<[q |-> 0, s |-> 1, k |-> 2, cnt |-> 1], [q |-> 1, s |-> 1, k |-> 3, cnt |-> 1]>>]),lstate |-> "NODATA",nload |-> 4,outlen |-> 64,nj |-> 0,cvR |-> (0 :> {} @@ 1 :> {}),live |-> 1]),
    ([over |-> TRUE,cur |-> (0 :> 2 @@ 1 :> 2),st |-> (0 :> "READY" @@ 1 :> "INV"),cvU |-> (0 :> {2} @@ 1 :> {}),pcw |-> (0 :> "done" @@ 1 :> "su2"),born |-> 2,turn |-> 0,pcio |-> "wuw",out |-> <<[q |-> 0, s |-> 0, k |-> 0, cnt |-> 1], [q |-> 1, s |-> 0, k |-> 1, cnt |-> 1], [q |-> 0, s |-> 1, k |-> 2, cnt |-> 1], [q |-> 1, s |-> 1, k |-> 3, cnt |-> 1]>>,mtx |-> (0 :> 3 @@ 1 :> 3),node |-> 75,hist |-> (0 :> 2 @@ 1 :> 2),buf |-> (0 :> [total |-> 1, now |-> 0, final |-> TRUE, data |-> <<[q |-> 99, s |-> 99, k |-> 4, cnt |-> 0]>>] @@ 1 :> [total |-> 2, now |-> 2, final |-> FALSE, data |-> <<[q |-> 0, s |-> 1, k |-> 2, cnt |-> 1], [q |-> 1, s |-> 1, k |-> 3, cnt |-> 1]>>]),lstate |-> "NODATA",nload |-> 4,outlen |-> 64,nj |-> 0,cvR |-> (0 :> {} @@ 1 :> {}),live |-> 1]),
    ([over |-> TRUE,cur |-> (0 :> 2 @@ 1 :> 2),st |-> (0 :> "READY" @@ 1 :> "INV"),cvU |-> (0 :> {2} @@ 1 :> {}),pcw |-> (0 :> "done" @@ 1 :> "wr0"),born |-> 2,turn |-> 0,pcio |-> "wuw",out |-> <<[q |-> 0, s |-> 0, k |-> 0, cnt |-> 1], [q |-> 1, s |-> 0, k |-> 1, cnt |-> 1], [q |-> 0, s |-> 1, k |-> 2, cnt |-> 1], [q |-> 1, s |-> 1, k |-> 3, cnt |-> 1]>>,mtx |-> (0 :> 3 @@ 1 :> 3),node |-> 76,hist |-> (0 :> 2 @@ 1 :> 2),buf |-> (0 :> [total |-> 1, now |-> 0, final |-> TRUE, data |-> <<[q |-> 99, s |-> 99, k |-> 4, cnt |-> 0]>>] @@ 1 :> [total |-> 2, now |-> 2, final |-> FALSE, data |-> <<[q |-> 0, s |-> 1, k |-> 2, cnt |-> 1], [q |-> 1, s |-> 1, k |-> 3, cnt |-> 1]>>]),lstate |-> "NODATA",nload |-> 4,outlen |-> 64,nj |-> 0,cvR |-> (0 :> {} @@ 1 :> {}),live |-> 1]),
    ([over |-> TRUE,cur |-> (0 :> 2 @@ 1 :> 2),st |-> (0 :> "READY" @@ 1 :> "INV"),cvU |-> (0 :> {2} @@ 1 :> {}),pcw |-> (0 :> "done" @@ 1 :> "wr1"),born |-> 2,turn |-> 0,pcio |-> "wuw",out |-> <<[q |-> 0, s |-> 0, k |-> 0, cnt |-> 1], [q |-> 1, s |-> 0, k |-> 1, cnt |-> 1], [q |-> 0, s |-> 1, k |-> 2, cnt |-> 1], [q |-> 1, s |-> 1, k |-> 3, cnt |-> 1]>>,mtx |-> (0 :> 3 @@ 1 :> 1),node |-> 77,hist |-> (0 :> 2 @@ 1 :> 2),buf |-> (0 :> [total |-> 1, now |-> 0, final |-> TRUE, data |-> <<[q |-> 99, s |-> 99, k |-> 4, cnt |-> 0]>>] @@ 1 :> [total |-> 2, now |-> 2, final |-> FALSE, data |-> <<[q |-> 0, s |-> 1, k |-> 2, cnt |-> 1], [q |-> 1, s |-> 1, k |-> 3, cnt |-> 1]>>]),lstate |-> "NODATA",nload |-> 4,outlen |-> 64,nj |-> 0,cvR |-> (0 :> {} @@ 1 :> {}),live |-> 1]),
    ([over |-> TRUE,cur |-> (0 :> 2 @@ 1 :> 2),st |-> (0 :> "READY" @@ 1 :> "INV"),cvU |-> (0 :> {2} @@ 1 :> {}),pcw |-> (0 :> "done" @@ 1 :> "wr2"),born |-> 2,turn |-> 0,pcio |-> "wuw",out |-> <<[q |-> 0, s |-> 0, k |-> 0, cnt |-> 1], [q |-> 1, s |-> 0, k |-> 1, cnt |-> 1], [q |-> 0, s |-> 1, k |-> 2, cnt |-> 1], [q |-> 1, s |-> 1, k |-> 3, cnt |-> 1]>>,mtx |-> (0 :> 3 @@ 1 :> 3),node |-> 78,hist |-> (0 :> 2 @@ 1 :> 2),buf |-> (0 :> [total |-> 1, now |-> 0, final |-> TRUE, data |-> <<[q |-> 99, s |-> 99, k |-> 4, cnt |-> 0]>>] @@ 1 :> [total |-> 2, now |-> 2, final |-> FALSE, data |-> <<[q |-> 0, s |-> 1, k |-> 2, cnt |-> 1], [q |-> 1, s |-> 1, k |-> 3, cnt |-> 1]>>]),lstate |-> "NODATA",nload |-> 4,outlen |-> 64,nj |-> 0,cvR |-> (0 :> {} @@ 1 :> {}),live |-> 1]),
    ([over |-> TRUE,cur |-> (0 :> 2 @@ 1 :> 2),st |-> (0 :> "READY" @@ 1 :> "INV"),cvU |-> (0 :> {2} @@ 1 :> {}),pcw |-> (0 :> "done" @@ 1 :> "chk"),born |-> 2,turn |-> 0,pcio |-> "wuw",out |-> <<[q |-> 0, s |-> 0, k |-> 0, cnt |-> 1], [q |-> 1, s |-> 0, k |-> 1, cnt |-> 1], [q |-> 0, s |-> 1, k |-> 2, cnt |-> 1], [q |-> 1, s |-> 1, k |-> 3, cnt |-> 1]>>,mtx |-> (0 :> 3 @@ 1 :> 3),node |-> 79,hist |-> (0 :> 2 @@ 1 :> 2),buf |-> (0 :> [total |-> 1, now |-> 0, final |-> TRUE, data |-> <<[q |-> 99, s |-> 99, k |-> 4, cnt |-> 0]>>] @@ 1 :> [total |-> 2, now |-> 2, final |-> FALSE, data |-> <<[q |-> 0, s |-> 1, k |-> 2, cnt |-> 1], [q |-> 1, s |-> 1, k |-> 3, cnt |-> 1]>>]),lstate |-> "NODATA",nload |-> 4,outlen |-> 64,nj |-> 0,cvR |-> (0 :> {} @@ 1 :> {}),live |-> 1]),
    ([over |-> TRUE,cur |-> (0 :> 2 @@ 1 :> 2),st |-> (0 :> "READY" @@ 1 :> "INV"),cvU |-> (0 :> {2} @@ 1 :> {}),pcw |-> (0 :> "done" @@ 1 :> "done"),born |-> 2,turn |-> 0,pcio |-> "wuw",out |-> <<[q |-> 0, s |-> 0, k |-> 0, cnt |-> 1], [q |-> 1, s |-> 0, k |-> 1, cnt |-> 1], [q |-> 0, s |-> 1, k |-> 2, cnt |-> 1], [q |-> 1, s |-> 1, k |-> 3, cnt |-> 1]>>,mtx |-> (0 :> 3 @@ 1 :> 3),node |-> 80,hist |-> (0 :> 2 @@ 1 :> 2),buf |-> (0 :> [total |-> 1, now |-> 0, final |-> TRUE, data |-> <<[q |-> 99, s |-> 99, k |-> 4, cnt |-> 0]>>] @@ 1 :> [total |-> 2, now |-> 2, final |-> FALSE, data |-> <<[q |-> 0, s |-> 1, k |-> 2, cnt |-> 1], [q |-> 1, s |-> 1, k |-> 3, cnt |-> 1]>>]),lstate |-> "NODATA",nload |-> 4,outlen |-> 64,nj |-> 0,cvR |-> (0 :> {} @@ 1 :> {}),live |-> 1])
    >>
----


=============================================================================

---- CONFIG CodeGraph_TTrace_1790453010 ----
CONSTANTS
    T = 2
    N = 64
    S = 32
    Dir = "enc"
    EofPeek = TRUE
    Pad = 5
    Gate = TRUE
    NotifyReady = TRUE
    NotifyUpdate = TRUE
    WaitLoop = TRUE
    ReadyTest = TRUE
    Spurious = FALSE
    Unbounded = FALSE
    Loads <- MCLoads
    DecPad <- MCDecPad

INVARIANT
    _inv

CHECK_DEADLOCK
    \* CHECK_DEADLOCK off because of PROPERTY or INVARIANT above.
    FALSE

INIT
    _init

NEXT
    _next

CONSTANT
    _TETrace <- _trace

ALIAS
    _expression
=============================================================================
\* Generated on Sat Sep 26 20:03:47 UTC 2026