------------------------------ MODULE HmacTrace ------------------------------
(***************************************************************************)
(* C08: recorded calls of the real hmac class against RFC 2104 (HMAC.tla). *)
(*  gethmac   : out[0..hlen) = Mac(alg, key, file[pos..]) and nothing is   *)
(*              written beyond hlen bytes (canary 0xAA intact)             *)
(*  cmphmac   : res <=> the first hlen bytes of `given` equal that Mac     *)
(*  writehmac : the file afterwards = the file before with the Mac of      *)
(*              before[hashMark..] patched in at writeMark, nothing else   *)
(***************************************************************************)
EXTENDS Naturals, Sequences, TLC, Json, IOUtils, Bytes
LOCAL H == INSTANCE HMAC
Events == ndJsonDeserialize(IOEnv.TRACE)
VARIABLES l, nbad

Why(ev) ==
  IF ev.e = "gethmac" THEN
    LET t == H!Mac(ev.alg, ev.key, Drop(ev.file, ev.pos)) IN
    IF ev.hlen # H!HLen(ev.alg) THEN "wrong tag length"
    ELSE IF Take(ev.out, ev.hlen) # t THEN "tag differs from RFC 2104 HMAC over [pos, EOF)"
    ELSE IF Drop(ev.out, ev.hlen) # Rep(170, 64 - ev.hlen) THEN "bytes written beyond the tag"
    ELSE "ok"
  ELSE IF ev.e = "cmphmac" THEN
    LET t == H!Mac(ev.alg, ev.key, Drop(ev.file, ev.pos))
        eq == H!CmpTag(ev.alg, ev.given, t) IN
    IF (ev.res = 1) = eq THEN "ok"
    ELSE IF eq THEN "a matching tag was rejected" ELSE "a tag that differs in some byte was accepted"
  ELSE IF ev.e = "writehmac" THEN
    LET t == H!Mac(ev.alg, ev.key, Drop(ev.before, ev.hashMark))
        want == Take(ev.before, ev.writeMark) \o t \o Drop(ev.before, ev.writeMark + Len(t)) IN
    IF ev.after = want THEN "ok" ELSE "file after writeFileHmac is not the file with the tag patched in"
  ELSE "unknown event"

Init == l = 1 /\ nbad = 0
Next == /\ l <= Len(Events)
        /\ LET ev == Events[l]  w == Why(ev)
           IN /\ IF w = "ok" THEN TRUE ELSE PrintT(<<"BAD", l, ev.id, w>>)
              /\ nbad' = nbad + (IF w = "ok" THEN 0 ELSE 1)
        /\ l' = l + 1
Finished == (l = Len(Events) + 1) => PrintT(<<"DONE", Len(Events), nbad>>)
Spec == Init /\ [][Next]_<<l, nbad>>
=============================================================================
