---- MODULE MC_Garbage ----
EXTENDS Garbage
VARIABLE i
Init == i = 0
Next == i < Cardinality(Classes) /\ i' = i + 1
Spec == Init /\ [][Next]_i
AlwaysClean == Clean
====
