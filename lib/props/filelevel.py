"""Shared machinery of C05 / C06 / C11 / C12 / C13: the file-level driver (harness/h_file.cpp) and the
FileTrace.tla validator."""
import concurrent.futures as cf, json, os
import wv

HL = {0: 20, 1: 16, 2: 32}


def exe(mid=False):
    if mid:     # chunks of 256 blocks (4 KiB), hash windows of 16 KiB: offsets, counters and per-refill arithmetic beyond one byte
        return wv.build("h_file", ["hash", "aes", "pipe", "kernel"], ["h_file.cpp"], ["-DWENCRY_VERIF_HBUF_SZ=256", "-DWENCRY_VERIF_BUF_SZ=256"])
    return wv.build("h_file", ["hash", "aes", "pipe", "kernel"], ["h_file.cpp"], ["-DWENCRY_VERIF_HBUF_SZ=1", "-DWENCRY_VERIF_BUF_SZ=2"])


def collect(res, pid, jobs):
    """jobs: argument lists of h_file; a job whose first element is "mid" runs on the build with mid-size constants."""
    x0 = exe()
    xm = exe(True) if any(j and j[0] == "mid" for j in jobs) else None

    def one(j):
        k, args = j
        x, env = x0, None
        if args and args[0] == "mid":
            x, args, env = xm, args[1:], {"WV_STRIDE": "257"}
        elif args and str(args[0]).startswith("stride"):      # small constants, a file of several hundred bytes, sampled body positions
            env, args = {"WV_STRIDE": str(args[0])[6:]}, args[1:]
        p = os.path.join(wv.RUN, pid, "rec%d.ndjson" % k)
        os.makedirs(os.path.dirname(p), exist_ok=True)
        r = wv.run_harness(x, args, p, timeout=1500, env=env)
        evs = wv.read_ndjson(p)
        return args, r, evs
    with cf.ThreadPoolExecutor(10) as ex:
        outs = list(ex.map(one, enumerate(jobs)))
    events = []
    for args, r, evs in outs:
        last = {}
        for e in evs:
            last[(e["e"], e["id"])] = e          # a re-run batch repeats ids: keep the last outcome
        evs = list(last.values())
        ended = [e for e in evs if e["e"] == "end"]
        if r.returncode != 0 or not ended:
            res.violation("driver h_file %s did not complete (rc=%s): %s" % (args, r.returncode, r.stderr.decode(errors="replace")[-800:]), {"cmd": ["h_file"] + [str(a) for a in args]})
        for e in evs:
            if e["e"] == "end":
                continue
            e["job"] = " ".join(str(a) for a in args)
            e["id"] = len(events); events.append(e)
    return events


def is_d3(e):
    """Known finding D3: the file differs from the authentic one only at offset 8 (and possibly in the
    zero bytes between the tag and offset 48), new value in 0..4, right key."""
    if e.get("e") != "op" or not e.get("has_orig") or e["key"] != e["oKey"]:
        return False
    if e.get("cls") != "tamper":
        return False      # the finding is about an ALTERED finished file; a crash state or any other class showing the same symptom is reported
    C, O = e["C"], e["oC"]
    if len(C) != len(O) or len(C) < 74 or C[8] == O[8] or C[8] > 4:
        return False
    hl = HL.get(O[9], 20)
    for i, (a, b) in enumerate(zip(C, O)):
        if a != b and i != 8 and not (10 + hl <= i < 48):
            return False
    return True


def judge(res, pid, events, full_sample=0, only=None, seedtag="", d3="known"):
    """Validate all events with the ideal oracle and a seeded sample with the real HMAC recomputation."""
    kf = [k for k in wv.load_known()["open"] if k["id"] == "D3"][0]
    bad, st = wv.validate_trace("FileTrace", events, name=pid + "/tlc", env={"FULL": "0"})
    nfull = 0
    if full_sample:
        ops = [e for e in events if e["e"] == "op" and e["how"] == "ok" and len(e["C"]) >= 60]
        rng = wv.rng(pid + seedtag)
        sample = rng.sample(ops, min(full_sample, len(ops)))
        bad2, st2 = wv.validate_trace("FileTrace", sample, name=pid + "/tlcfull", env={"FULL": "1"})
        seen = set(id(b[0]) for b in bad)
        bad += [b for b in bad2 if id(b[0]) not in seen]
        nfull = len(sample)
    nknown = 0
    for e, why in bad:
        if only and not any(o in why for o in only):
            continue
        if e["e"] == "writelog" and "encryption reported failure" not in why:
            # the order in which bytes reach the output is implementation latitude; what C13 demands
            # (every intermediate state rejected) is decided on the materialised states
            res.note("write-order drift (%s): %s" % (e.get("job", ""), why[:160]))
            continue
        if is_d3(e) and ("plaintext differs" in why or "did not return normally" in why):
            if d3 == "known":
                res.known_finding(kf["text"]); nknown += 1
            else:       # outside this property's domain (valid tag, not produced by encryption)
                res.add("excluded_outside_domain")
            continue
        res.violation("%s case %s pos=%s val=%s (T=%s, %d-byte file): %s" % (e.get("cls", e["e"]), e.get("kind", ""), e.get("pos"), e.get("val"), e.get("T"), len(e.get("C", e.get("final", []))), why[:300]),
                      {"events": [e]})
    return st, nfull


def describe(e):
    return {k: (v if not isinstance(v, list) or len(v) <= 20 else v[:20] + ["...(%d)" % len(v)]) for k, v in e.items() if k not in ("oP", "oKey", "oC")}
