"""C15 - operations repeated in one process behave as in a fresh process."""
import json, os
import wv
PID = "C15"


def run(tier, replay):
    res = wv.Result(PID, "model_checking", tier)
    wv.design_runs(res, [("History", "MC_History", True), ("History", "MC_History_neg_del", False), ("History", "MC_History_neg_live", False), ("History", "MC_History_neg_getopt", False)])
    exe = wv.build("h_hist", ["hash", "aes", "pipe", "kernel", "b64", "cli"], ["h_hist.cpp"], ["-DWENCRY_VERIF_HBUF_SZ=2", "-DWENCRY_VERIF_BUF_SZ=2"])
    d = os.path.join(wv.RUN, PID); os.makedirs(d, exist_ok=True)
    if replay:
        hists = [json.load(open(replay))["replay"]["ops"]]
    else:
        out = os.path.join(d, "histories.json")
        r = wv.tlc("HistoryVectors", env={"OUT": out}, workers=1, timeout=300)
        if "HISTORIES" not in r["out"] or not os.path.exists(out):
            raise wv.Infra("HistoryVectors.tla failed:\n" + r["out"][-2000:])
        allh = json.load(open(out))
        rng = wv.rng("c15")
        short = [h for h in allh if len(h) <= 2]
        h3 = [h for h in allh if len(h) == 3]
        pick3 = h3 if tier == "thorough" else rng.sample(h3, 250)
        longer = []
        for _ in range(150 if tier == "quick" else 3000):
            k = rng.randint(4, 6)
            longer.append([rng.randrange(37) for _ in range(k)])
        # histories that exercise the pinned defects: abort inside an option cluster, then parse again
        special = [[15, 1], [15, 14], [15, 0, 3], [15, 15, 2], [12, 10], [12, 13], [12, 12, 10], [7, 1], [6, 14], [5, 8], [2, 0, 2], [14, 14, 3, 1],
                   # right key on one file, an operation in ANOTHER hash mode under a second key, then the first file with that second key
                   [22, 8, 31], [8, 22, 31], [22, 1, 31], [3, 14, 31], [8, 19, 32], [19, 8, 32], [14, 2, 32], [19, 22, 33], [22, 19, 33], [16, 0, 33], [22, 8, 31, 22], [31, 22, 8, 31], [34, 13], [35, 13], [34, 35, 13], [36, 1], [36, 14], [36, 36, 2]]
        hists = short + pick3 + longer + special
    hp = os.path.join(d, "histories.txt")
    with open(hp, "w") as f:
        for h in hists:
            f.write(" ".join(str(o) for o in h) + "\n")
    p = os.path.join(d, "rec.ndjson")
    r = wv.run_harness(exe, [hp], p, timeout=1500)
    evs = wv.read_ndjson(p)
    if any(e["e"] == "nofixture" for e in evs):
        res.violation("an encryption alone in a fresh process failed, hung or crashed while the fixtures were made (T = 1, 2 or 4; see C01 / C04)", {"ops": [0]})
        return res.finish()
    fresh = sorted([e for e in evs if e["e"] == "fresh"], key=lambda e: e["op"])
    if r.returncode != 0 or len(fresh) != 37:
        raise wv.Infra("history driver failed rc=%s, %d fresh results: %s" % (r.returncode, len(fresh), r.stderr[-800:]))
    ftab = [{"ret": e["ret"], "out": e["out"], "how": e["how"]} for e in fresh]
    events = []
    nskip = sum(1 for e in evs if e["e"] == "hist" and e.get("how") == "skipped")
    if nskip:
        res.note("%d histories were not run after six histories had not run to completion (reported below)" % nskip)
    for e in evs:
        if e["e"] == "hist" and e.get("how") != "skipped":
            e["fresh"] = ftab; e["id"] = len(events); events.append(e)
    bad, st = wv.validate_trace("HistoryTrace", events, name=PID + "/tlc")
    names = {e["op"]: e["name"] for e in fresh}
    res.cov.update({"traces_validated_against_impl": len(events), "evaluations": len(events), "distinct_nontrivial": len(set(tuple(e["ops"]) for e in events if len(e["ops"]) >= 2)),
                    "operation_alphabet": names,
                    "rule": "design: History.tla - every history up to length 4 over the 37-operation alphabet (encrypt / decrypt / verify x three cipher-hash-thread configurations x valid / wrong key / tampered, garbage and out-of-range inputs, four option-parser calls, an unwritable output, three operations on runners built with the default Settings / thread count, three operations whose wrong key is the right key of a file with another hash mode) on the model of the process-wide state (singleton, live counter, getopt position incl. the hidden in-cluster position), with negative controls (del_instance omitted, counter not decremented, optind-only reset = D9). Binding: TLC emits all histories of length <= 3; the driver runs all of length <= 2, a seeded sample (thorough: all) of length 3 and random ones of length 4-6, each inside ONE forked process using the real library calls and get_v_opt, logging after every operation the result, the output bytes and the probe (instance == NULL, live_num); every operation is also run alone in a fresh process; TLC checks HistoryFree (a violation) and Quiescent (the probe; a drift note when only it fails). Non-trivial = at least two operations.",
                    "validator_states": st["states"], "exhaustive": False})
    for e in events[:: max(1, len(events) // 3)][:3]:
        res.sample({"ops": [names[o] for o in e["ops"]], "results": [{k: (v if k != "out" else len(v)) for k, v in r_.items()} for r_ in e["results"]]})
    nq = 0
    for e, why in bad:
        if "not quiescent" in why:
            # implementation-level: the singleton / live counter are not back at their initial values between operations.
            # The property is about results and output bytes (HistoryFree, judged above for the same histories); a tree that
            # keeps its buffers between runs and still behaves as a fresh process satisfies it - reported as drift only
            nq += 1
            if nq <= 3:
                res.note("spec-drift: %s (History.tla assumes the singleton is deleted and the live counter is 0 after every operation; results and outputs of the explored histories are those of fresh processes)" % why[:160])
            continue
        res.violation("history %s: %s" % ([names[o] for o in e["ops"]], why[:300]), {"ops": e["ops"], "results": [{k: (v if k != "out" else v[:32]) for k, v in r_.items()} for r_ in e["results"]]})
    res.assumptions += ["the operation alphabet is fixed (37 operations); histories beyond length 3 are sampled", "process-wide state visible to the probe: buffergroup::instance, bufferctrl::live_num; getopt/fout residue is observed through results only"]
    return res.finish()
