"""C08 - the tag is RFC 2104 HMAC over [pos, EOF), compared over every byte, stored at offset 10."""
import concurrent.futures as cf, json
import wv
PID = "C08"


def run(tier, replay):
    res = wv.Result(PID, "exploration", tier)
    maxlen, step = (140, 1) if tier == "quick" else (270, 1)
    exes = [wv.build("h_hmac", ["hash", "aes", "pipe", "kernel"], ["h_hmac.cpp"],
                     ["-DWENCRY_VERIF_HBUF_SZ=%d" % h, "-DWENCRY_VERIF_BUF_SZ=2"]) for h in ((1, 2) if tier == "quick" else (1, 2, 3))]
    if replay:
        events = json.load(open(replay))["replay"]["events"]
    else:
        events = wv.record(res, PID, [(exes[0], [maxlen, step])] + [(e, [maxlen, 3]) for e in exes[1:]])
    bad, st = wv.validate_trace("HmacTrace", events, name=PID + "/tlc", shards=8)
    keys = set((e["e"], e["alg"], len(e.get("file", e.get("before", []))), e.get("pos", 48)) for e in events)
    nrej = sum(1 for e in events if e["e"] == "cmphmac" and e["res"] == 0)
    res.cov.update({"evaluations": len(events), "distinct_nontrivial": len(keys),
                    "rule": "one case = (call kind gethmac/cmphmac/writeFileHmac, hash mode, file length, stream position 0/5/48, plus positions 255..257, 300, 1000, 4103 and 65539 for which the tag of the region starting at pos mod 256 / mod 65536 must also be REJECTED); message lengths 0..%d so the inner input 64+len and the outer input 64+hlen fall in every residue class mod 64; keys random, all-zero and all-0xFF; refill sizes 1-3 units. cmphmac is called with the correct tag, with each of its hlen bytes altered in turn and with a change only beyond hlen (%d rejecting calls). TLC recomputes every tag with spec/HMAC.tla." % (maxlen, nrej),
                    "traces_validated_against_impl": len(events), "validator_states": st["states"], "exhaustive": False})
    for e in events[:: max(1, len(events) // 4)][:4]:
        res.sample(wv.shorten(e))
    for e, why in bad:
        res.violation("%s (hash mode %s, %d-byte file, position %s): %s" % (e["e"], e["alg"], len(e.get("file", e.get("before", []))), e.get("pos", 48), why[:300]), {"events": [e]})
    res.assumptions += ["TLC and the RFC 2104 / FIPS 180-4 / RFC 1321 transcriptions (KAT-anchored)", "contents and keys sampled; lengths exhaustive in range"]
    return res.finish()
