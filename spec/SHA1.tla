-------------------------------- MODULE SHA1 --------------------------------
(***************************************************************************)
(* SHA-1 transcribed from FIPS 180-4 sections 4.1.1, 4.2.1, 5.3.1, 6.1.2.  *)
(* Executable by TLC; words are <<hi16, lo16>> pairs (module Bytes).       *)
(***************************************************************************)
EXTENDS Bytes, MD

LOCAL IV == << <<26437, 8961>>, <<61389, 43913>>, <<39098, 56574>>, <<4146, 21622>>, <<50130, 57840>> >>
LOCAL K(t) == IF t < 20 THEN <<23170, 31129>> ELSE IF t < 40 THEN <<28377, 60321>> ELSE IF t < 60 THEN <<36635, 48348>> ELSE <<51810, 49622>>
LOCAL Ch(x, y, z)     == WXor(WAnd(x, y), WAnd(WNot(x), z))
LOCAL Parity(x, y, z) == WXor(WXor(x, y), z)
LOCAL Maj(x, y, z)    == WXor(WXor(WAnd(x, y), WAnd(x, z)), WAnd(y, z))
LOCAL F(t, x, y, z) == IF t < 20 THEN Ch(x, y, z) ELSE IF t < 40 THEN Parity(x, y, z)
                       ELSE IF t < 60 THEN Maj(x, y, z) ELSE Parity(x, y, z)

\* message schedule W_0..W_79 as a sequence indexed 1..80
LOCAL Schedule(blk) ==
  LET w0 == [i \in 1..16 |-> BEWord(blk, 4 * (i - 1))]
      ext(w, i) == Append(w, Rotl(WXor(WXor(w[i - 3], w[i - 8]), WXor(w[i - 14], w[i - 16])), 1))
  IN FoldLeft(ext, w0, Iota(17, 80))

\* one application of the compression function: h is <<H0..H4>>, blk 64 bytes
Compress(h, blk) ==
  LET w == Schedule(blk)
      round(s, t) ==      \* s = <<a,b,c,d,e>>, t in 0..79
        LET tmp == WAdd5(Rotl(s[1], 5), F(t, s[2], s[3], s[4]), s[5], K(t), w[t + 1])
        IN << tmp, s[1], Rotl(s[2], 30), s[3], s[4] >>
      fin == FoldLeft(round, h, Iota(0, 79))
  IN [i \in 1..5 |-> WAdd(h[i], fin[i])]

Out(h) == ConcatAll([i \in 1..5 |-> BEBytes(h[i])])
Digest(m) == Out(Iterate(Compress, IV, Pad(m, TRUE)))
Init == IV
HLen == 20
=============================================================================
