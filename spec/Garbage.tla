------------------------------- MODULE Garbage -------------------------------
(***************************************************************************)
(* C11, design level and vector generation: structural classes of byte     *)
(* strings offered as input file - length class, magic good/bad, cipher-   *)
(* mode byte, hash-mode byte, tag field zero / junk - with the result code *)
(* the specification's verify decision list assigns (never 0: a string     *)
(* that carries no valid tag is never accepted).  The classes are written  *)
(* as JSON (IOEnv.OUT) and instantiated by the driver.                     *)
(***************************************************************************)
EXTENDS Wencry, TLC, Json, IOUtils, FiniteSetsExt, SequencesExt
T0 == 2
Lens == {0, 3, 7, 8, 9, 10, 30, 47, 48, 60, 73, 74, 75, 48 + 20 * T0, 48 + 20 * T0 + 16, 48 + 20 * T0 + 40, 150}
CTs == {0, 1, 2, 3, 4, 5, 100, 255}
HTs == {0, 1, 2, 3, 200, 255}
Classes == { [len |-> l, magic |-> m, ct |-> c, ht |-> h, tag |-> t] :
               l \in Lens, m \in BOOLEAN, c \in CTs, h \in HTs, t \in {0, 1} }
\* a symbolic instance of a class
Instance(k) == [p \in 1..k.len |->
                  IF p <= 8 THEN (IF k.magic THEN <<"m", p, 0>> ELSE X(p))
                  ELSE IF p = 9 THEN V(k.ct) ELSE IF p = 10 THEN V(k.ht)
                  ELSE IF p <= 48 /\ k.tag = 0 THEN V(0) ELSE X(p)]
Code(k) == Verify(Instance(k), "k", <<>>)       \* no tag known to whoever made the garbage
Predicted(k) == IF k.len < 8 \/ ~k.magic THEN 4
                ELSE IF k.len >= 10 /\ (k.ct > 4 \/ k.ht > 2) THEN 3
                ELSE IF k.len < 74 THEN 1 ELSE 2
Clean == \A k \in Classes : Code(k) # 0 /\ Code(k) = Predicted(k)
ASSUME Clean
Vectors == SetToSeq({ [len |-> k.len, magic |-> k.magic, ct |-> k.ct, ht |-> k.ht, tag |-> k.tag, code |-> Code(k)] : k \in Classes })
WriteOut == IF "OUT" \in DOMAIN IOEnv THEN JsonSerialize(IOEnv.OUT, Vectors) /\ PrintT(<<"CLASSES", Len(Vectors)>>) ELSE TRUE
ASSUME WriteOut
=============================================================================
