--------------------------- MODULE ChunkingProofs ---------------------------
(***************************************************************************)
(* TLAPS proofs about Chunking.tla that hold for EVERY input length and    *)
(* EVERY chunk size (a multiple of 16), i.e. beyond what TLC enumerates:   *)
(*  - PKCS#7: 1..16 pad bytes, padded length = 16(n div 16 + 1)            *)
(*  - the length formula of C02: 48 + 20T + 16(n div 16 + 1)               *)
(*  - encrypting never produces a final buffer without a block             *)
(*  - decrypting a body of whole blocks, with the one-byte look-ahead      *)
(*    (EofPeek), never produces a final buffer without a block and never   *)
(*    reports NODATA before a final one - the design-level reason why the  *)
(*    pipeline cannot be left with a READY buffer nobody consumes (D1,     *)
(*    D11); without the look-ahead the body of exactly one chunk is a      *)
(*    counterexample                                                       *)
(* Checked by `tlapm` (SMT back end); run by ./check C01 --tier thorough   *)
(* and by ./check setup.                                                   *)
(***************************************************************************)
EXTENDS ChunkingBase, Integers, TLAPS

ChunkSize(S) == S \in Nat /\ S >= 16 /\ S % 16 = 0

THEOREM PadRange == \A n \in Nat : PadLen(n) \in 1..16
  BY DEF PadLen
THEOREM PaddedMultiple == \A n \in Nat : PaddedLen(n) % 16 = 0
  BY DEF PaddedLen, PadLen
THEOREM PaddedFormula == \A n \in Nat : PaddedLen(n) = 16 * ((n \div 16) + 1)
  BY DEF PaddedLen, PadLen
THEOREM LengthFormula == \A n \in Nat, T \in 1..16 : 48 + 20 * T + PaddedLen(n) = 48 + 20 * T + 16 * ((n \div 16) + 1)
  BY PaddedFormula

\* encrypt: a load is FINAL exactly when fewer than S bytes are left, and then holds >= 1 block
THEOREM EncFinalIff == \A n, pos, S \in Nat : ChunkSize(S) /\ pos <= n =>
                          (EncLoad(n, pos, S)[1] = FINAL <=> n - pos < S)
  BY DEF EncLoad, Min2, ChunkSize, FINAL, FULL
THEOREM EncFinalNonEmpty == \A n, pos, S \in Nat : ChunkSize(S) /\ pos <= n =>
                          EncLoad(n, pos, S)[3] >= 1
  BY DEF EncLoad, Min2, ChunkSize, FINAL, FULL
\* the blocks of a final encrypt load hold the remaining data plus 1..16 pad bytes
THEOREM EncFinalHoldsPadded == \A n, pos, S \in Nat : ChunkSize(S) /\ pos <= n /\ n - pos < S =>
                          16 * EncLoad(n, pos, S)[3] = (n - pos) + PadLen(n - pos)
  BY DEF EncLoad, Min2, ChunkSize, PadLen, FINAL, FULL

\* decrypt with the look-ahead: at a block-aligned position (every chunk-aligned position is one,
\* because S is a multiple of 16) inside a body of whole blocks the load is
\* FULL (and more data follows) or FINAL with at least one block; never NODATA, never an empty FINAL
THEOREM DecPeekOK == \A m, pos, S \in Nat :
                        ChunkSize(S) /\ m % 16 = 0 /\ pos % 16 = 0 /\ pos < m =>
                          /\ DecLoad(m, pos, S, TRUE)[1] \in {FULL, FINAL}
                          /\ (DecLoad(m, pos, S, TRUE)[1] = FULL => pos + S < m)
                          /\ (DecLoad(m, pos, S, TRUE)[1] = FINAL => DecLoad(m, pos, S, TRUE)[3] >= 1 /\ pos + S >= m)
  BY DEF DecLoad, Min2, ChunkSize, FINAL, FULL, NODATA
\* without it (the pinned tree): a body of exactly one chunk is read as FULL, and the next load is a
\* FINAL one without any block
THEOREM DecNoPeekCounterexample == \A S \in Nat : ChunkSize(S) =>
                          /\ DecLoad(S, 0, S, FALSE)[1] = FULL
                          /\ DecLoad(S, S, S, FALSE)[1] = FINAL /\ DecLoad(S, S, S, FALSE)[3] = 0
  BY DEF DecLoad, Min2, ChunkSize, FINAL, FULL, NODATA
\* a body that is not a whole number of blocks can end in a final buffer without a block even with the
\* look-ahead (m = S + j, 1 <= j <= 15): the reason verify() has to reject such bodies (D11)
THEOREM RaggedBodyCounterexample == \A S \in Nat, j \in 1..15 : ChunkSize(S) =>
                          /\ DecLoad(S + j, 0, S, TRUE)[1] = FULL
                          /\ DecLoad(S + j, S, S, TRUE)[1] = FINAL /\ DecLoad(S + j, S, S, TRUE)[3] = 0
  BY DEF DecLoad, Min2, ChunkSize, FINAL, FULL, NODATA
\* export sizes: a non-final buffer writes S bytes, a final one 16*blocks - pad
THEOREM ExportNonNegative == \A blocks \in Nat, pad \in 0..16, S \in Nat : blocks >= 1 =>
                          ExportLen(<<FINAL, 0, blocks>>, S, pad) >= 0
  BY DEF ExportLen, FINAL
=============================================================================
