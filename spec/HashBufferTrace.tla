--------------------------- MODULE HashBufferTrace ---------------------------
(***************************************************************************)
(* C07/C08 binding of HashBuffer.tla at the granularity of its actions:    *)
(* every call of the real filebuffer64::read_buffer64 made by              *)
(* Hashmaster::getFileHash is recorded (size and bytes of the unit handed  *)
(* to the hash), and the recorded sequence of calls of one hashing run     *)
(* must be a behaviour of the HashBuffer machine started with the same     *)
(* (message length, refill size, prefix block): each read is one           *)
(* ReadExtra / ReadUnit step whose delivered unit, mapped from symbolic    *)
(* cells to the run's concrete bytes, equals the recorded one.             *)
(***************************************************************************)
EXTENDS HashBuffer, Json, IOUtils
Events == ndJsonDeserialize(IOEnv.TRACE)
VARIABLES l, r, nbad
tvars == << vars, l, r, nbad >>

\* symbolic cell -> the concrete byte of this run (cells > 1000 are prefix-block cells)
Concrete(ev, u) == [j \in 1..Len(u) |-> IF u[j] > 1000 THEN ev.prefix[u[j] - 1000] ELSE ev.msg[u[j]]]
Load(ev) == /\ n' = ev.n /\ hbuf' = ev.hbuf /\ hasPrefix' = (ev.pre = 1)
            /\ fpos' = 0 /\ base' = 0 /\ total' = 0 /\ now' = 0 /\ tail' = 0
            /\ hasExtra' = (ev.pre = 1) /\ units' = <<>> /\ counted' = 0 /\ lenField' = 0 /\ pc' = "ctor"
TInit == /\ l = 1 /\ r = 1 /\ nbad = 0
         /\ n = Events[1].n /\ hbuf = Events[1].hbuf /\ hasPrefix = (Events[1].pre = 1)
         /\ fpos = 0 /\ base = 0 /\ total = 0 /\ now = 0 /\ tail = 0
         /\ hasExtra = (Events[1].pre = 1) /\ units = <<>> /\ counted = 0 /\ lenField = 0 /\ pc = "ctor"
TCtor == l <= Len(Events) /\ Ctor /\ UNCHANGED << l, r, nbad >>
Matches(ev) == r <= Len(ev.reads) /\ Concrete(ev, units'[Len(units')]) = ev.reads[r]
TRead == /\ l <= Len(Events) /\ pc = "loop"
         /\ (ReadExtra \/ ReadUnit)
         /\ Matches(Events[l])
         /\ r' = r + 1 /\ UNCHANGED << l, nbad >>
\* the run is over in the specification: the recording must be over too
TNextRun(bad) == /\ l' = l + 1 /\ r' = 1 /\ nbad' = nbad + (IF bad THEN 1 ELSE 0)
                 /\ IF l + 1 <= Len(Events) THEN Load(Events[l + 1]) ELSE UNCHANGED vars
TDone == /\ l <= Len(Events) /\ pc = "done"
         /\ LET ok == r = Len(Events[l].reads) + 1 IN
            /\ IF ok THEN TRUE ELSE PrintT(<<"BAD", l, Events[l].id, "the real buffer made more reads than the specification", r>>)
            /\ TNextRun(~ok)
\* no step of the machine explains the recorded read
TMismatch == /\ l <= Len(Events) /\ pc = "loop"
             /\ ~ENABLED (( ReadExtra \/ ReadUnit) /\ Matches(Events[l]))
             /\ PrintT(<<"BAD", l, Events[l].id, "read number r is not the unit the specification delivers next", r>>)
             /\ TNextRun(TRUE)
TNext == TCtor \/ TRead \/ TDone \/ TMismatch
Finished == (l = Len(Events) + 1) => PrintT(<<"DONE", Len(Events), nbad>>)
Spec2 == TInit /\ [][TNext]_tvars
\* the design properties hold along every validated run
RunProps == UnitsPrefix /\ UnitsExact /\ InBounds
=============================================================================
