---------------------------- MODULE ChunkingBase ----------------------------
(***************************************************************************)
(* The sequential meaning of wencry's chunked data path: how an input of   *)
(* n bytes is cut into chunk loads (fread / EOF semantics, PKCS#7 padding  *)
(* as "always 1..16 bytes, in a chunk of its own if the data ends on a     *)
(* chunk boundary"), which cipher stream owns which chunk, how the last    *)
(* chunk is recognised when decrypting, and how many bytes each export     *)
(* writes.  S = chunk size in bytes (a multiple of 16), T = streams.       *)
(*                                                                         *)
(* EofPeek = TRUE is the repaired tree (a full read looks one byte ahead); *)
(* FALSE is the pinned behaviour (D1), used by negative controls only.     *)
(***************************************************************************)
EXTENDS Naturals, Sequences

Min2(a, b) == IF a < b THEN a ELSE b
FULL == "FULL"  FINAL == "FINAL"  NODATA == "NODATA"

\* ---- encrypting: input of n bytes --------------------------------------
\* the load at input position pos: <<kind, data bytes read, blocks in the buffer>>
EncLoad(n, pos, S) ==
  LET got == Min2(S, n - pos)
  IN IF got # S THEN << FINAL, got, (got \div 16) + 1 >>      \* 1..16 pad bytes, maybe a pad-only chunk
     ELSE << FULL, S, S \div 16 >>
PadLen(n) == 16 - (n % 16)
PaddedLen(n) == n + PadLen(n)
EncChunks(n, S) == (PaddedLen(n) + S - 1) \div S       \* number of chunks written

\* ---- decrypting: body of m bytes ---------------------------------------
DecLoad(m, pos, S, EofPeek) ==
  LET got == Min2(S, m - pos)
      readover == (m - pos < S) \/ (EofPeek /\ m - pos = S)
  IN IF readover THEN << FINAL, got, got \div 16 >>
     ELSE IF got = 0 THEN << NODATA, 0, 0 >> ELSE << FULL, S, S \div 16 >>
\* ---- ownership ----------------------------------------------------------
Owner(chunk0, T) == chunk0 % T                   \* chunk j (0-based) belongs to stream j mod T
ChunkOfBlock(b0, S) == b0 \div (S \div 16)       \* block b (0-based) lies in chunk b div (S/16)

\* ---- export -------------------------------------------------------------
\* bytes written for a buffer: whole chunk, or for the final one 16*blocks minus the pad
\* (pad = 0 when encrypting, the last plaintext byte when decrypting)
ExportLen(load, S, pad) == IF load[1] = FINAL THEN 16 * load[3] - pad ELSE S

\* ---- the relations the rest of the specification relies on --------------
\* (checked against the production constants reported by the code, see ConstTrace)
ConstsOK(c) == /\ c.sum = 16 * c.buf_sz /\ c.sizeof_b = c.sum /\ c.sum % 16 = 0 /\ c.buf_sz >= 1
               /\ c.mn = 0 /\ c.mode = 8 /\ c.hmac = 10 /\ c.iv = 48 /\ c.text1 = 68 /\ c.text16 = 368
               /\ c.thread_max = 16 /\ c.padding = 38
=============================================================================
