"""C04 - see pipe.py"""
from props import pipe


def run(tier, replay):
    return pipe.run("C04", tier, replay)
