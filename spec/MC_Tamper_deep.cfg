CONSTANTS Ts = {1}  NBs = {2}  Depth = 2  ExemptD3 = TRUE
SPECIFICATION Spec
INVARIANTS TamperSafe OnlyPadding WrongKey
CHECK_DEADLOCK FALSE
