----------------------------- MODULE AesVectors -----------------------------
(***************************************************************************)
(* C09 vector generation (spec -> code): (key, block) pairs chosen from    *)
(* the STRUCTURE of the cipher rather than at random - states that are     *)
(* partly zero where a data-dependent shortcut in a round function would   *)
(* show.  For a set of columns cols the plaintext is crafted so that after *)
(* the first AddRoundKey, SubBytes and ShiftRows exactly those columns of  *)
(* the state are all-zero when they enter MixColumns; the matching         *)
(* ciphertext, computed by the specification, puts the same zero columns   *)
(* in front of InvMixColumns in the last round of the inverse cipher.      *)
(* The same for rounds 2, 5 and 9 (the plaintext is obtained by unwinding  *)
(* the earlier rounds with the inverse round functions), for zero rows,    *)
(* the all-zero state, constant columns (MixColumns fixed points) and     *)
(* all-0x80 / all-0xFF states.                                             *)
(***************************************************************************)
EXTENDS Naturals, Sequences, FiniteSets, FiniteSetsExt, TLC, Json, IOUtils, Bytes
LOCAL A == INSTANCE AES128
Keys == << [i \in 1..16 |-> (37 * i + 11) % 256], [i \in 1..16 |-> (i * i * 7 + 200) % 256], [i \in 1..16 |-> 0] >>
\* 0-based byte positions of row r
PosRow(r) == { r + 4 * c : c \in 0..3 }
\* a structured state M in front of MixColumns: zero on the set zero, pattern pat elsewhere
Pat(j, i) == CASE j = 0 -> ((29 * i + 5) % 255) + 1      \* distinct non-zero bytes
               [] j = 1 -> 128                              \* xtime overflows in every byte
               [] j = 2 -> ((i - 1) \div 4) + 1             \* every column constant: MixColumns fixed points
               [] j = 3 -> 255
State(zero, j) == [i \in 1..16 |-> IF (i - 1) \in zero THEN 0 ELSE Pat(j, i)]
\* the plaintext for which the state entering MixColumns in round r (1..9) is M: unwind the rounds
PtForState(key, r, M) ==
  LET w == A!KeyExpansion(key)
      back(s, rr) == A!InvSubBytes(A!InvShiftRows(A!InvMixColumns(XorBytes(s, A!RoundKey(w, rr)))))
      s1 == FoldLeft(back, A!InvSubBytes(A!InvShiftRows(M)), Reverse(Iota(1, r - 1)))
  IN XorBytes(s1, A!RoundKey(w, 0))
ZeroSets == { UNION { { 4 * c + r : r \in 0..3 } : c \in cs } : cs \in (SUBSET (0..3)) }
            \cup { PosRow(r) : r \in 0..3 } \cup { {0, 1, 2, 3, 4, 8, 12} }
Rounds == {1, 2, 5, 9}
Vectors == { LET pt == PtForState(Keys[k], r, State(z, j))
             IN [key |-> Keys[k], pt |-> pt, ct |-> A!Cipher(Keys[k], pt)] : k \in 1..3, r \in Rounds, z \in ZeroSets, j \in {0} }
           \cup { LET pt == PtForState(Keys[1], r, State({}, j))
                  IN [key |-> Keys[1], pt |-> pt, ct |-> A!Cipher(Keys[1], pt)] : r \in Rounds, j \in 1..3 }
ASSUME JsonSerialize(IOEnv.OUT, SetToSeq(Vectors))
ASSUME PrintT(<<"AESVECTORS", Cardinality(Vectors)>>)
=============================================================================
