------------------------------- MODULE AES128 -------------------------------
(***************************************************************************)
(* AES-128 from FIPS-197, built from first principles so that it shares    *)
(* nothing with the implementation's tables:                               *)
(*   - GF(2^8) multiplication by shift-and-reduce with m(x) = 0x11B (4.2)  *)
(*   - S-box = multiplicative inverse followed by the affine map (5.1.1)   *)
(*   - ShiftRows, MixColumns {02,03,01,01} (5.1.2, 5.1.3)                  *)
(*   - KeyExpansion with Rcon = x^(i-1) (5.2)                              *)
(*   - Cipher (5.1), InvCipher (5.3)                                       *)
(* The state is a 16-byte sequence in input order: s[r + 4c + 1].          *)
(***************************************************************************)
EXTENDS Bytes

XTime(a) == LET d == (2 * a) % 256 IN IF a >= 128 THEN d ^^ 27 ELSE d
\* product in GF(2^8): sum over the bits of b of a * x^i
GMul(a, b) ==
  LET step(s, i) ==   \* s = <<acc, a * x^i>>
        << IF (b \div Pow2(i)) % 2 = 1 THEN s[1] ^^ s[2] ELSE s[1], XTime(s[2]) >>
  IN FoldLeft(step, <<0, a>>, Iota(0, 7))[1]
LOCAL Sq(a) == GMul(a, a)
\* a^254 = a^-1 for a # 0, and 0 for a = 0 (FIPS-197 5.1.1 maps 00 to itself)
GInv(a) == LET a2 == Sq(a) a4 == Sq(a2) a8 == Sq(a4) a16 == Sq(a8) a32 == Sq(a16)
               a64 == Sq(a32) a128 == Sq(a64)
           IN GMul(a128, GMul(a64, GMul(a32, GMul(a16, GMul(a8, GMul(a4, a2))))))
LOCAL Rotl8(x, k) == ((x * Pow2(k)) % 256) + (x \div Pow2(8 - k))
LOCAL X4(a, b, c, d) == (a ^^ b) ^^ (c ^^ d)
Affine(x) == X4(x, Rotl8(x, 1), Rotl8(x, 2), Rotl8(x, 3)) ^^ (Rotl8(x, 4) ^^ 99)

\* constant-level tables, evaluated once by TLC (function domain 0..255)
SBox    == [a \in 0..255 |-> Affine(GInv(a))]
InvSBox == [b \in 0..255 |-> CHOOSE a \in 0..255 : SBox[a] = b]
Mul2 == [a \in 0..255 |-> XTime(a)]
Mul3 == [a \in 0..255 |-> XTime(a) ^^ a]
Mul9  == [a \in 0..255 |-> GMul(a, 9)]
Mul11 == [a \in 0..255 |-> GMul(a, 11)]
Mul13 == [a \in 0..255 |-> GMul(a, 13)]
Mul14 == [a \in 0..255 |-> GMul(a, 14)]

LOCAL At(s, r, c) == s[r + 4 * c + 1]
SubBytes(s)    == [i \in 1..16 |-> SBox[s[i]]]
InvSubBytes(s) == [i \in 1..16 |-> InvSBox[s[i]]]
ShiftRows(s)    == [i \in 1..16 |-> LET r == (i - 1) % 4 c == (i - 1) \div 4 IN At(s, r, (c + r) % 4)]
InvShiftRows(s) == [i \in 1..16 |-> LET r == (i - 1) % 4 c == (i - 1) \div 4 IN At(s, r, (c + 4 - r) % 4)]
MixColumns(s) ==
  [i \in 1..16 |-> LET r == (i - 1) % 4 c == (i - 1) \div 4
                   IN X4(Mul2[At(s, r, c)], Mul3[At(s, (r + 1) % 4, c)],
                         At(s, (r + 2) % 4, c), At(s, (r + 3) % 4, c))]
InvMixColumns(s) ==
  [i \in 1..16 |-> LET r == (i - 1) % 4 c == (i - 1) \div 4
                   IN X4(Mul14[At(s, r, c)], Mul11[At(s, (r + 1) % 4, c)],
                         Mul13[At(s, (r + 2) % 4, c)], Mul9[At(s, (r + 3) % 4, c)])]

\* key schedule: 44 words of 4 bytes; Rcon[i] = x^(i-1)
LOCAL Rcon == FoldLeft(LAMBDA acc, i : Append(acc, XTime(acc[Len(acc)])), <<1>>, Iota(2, 10))
KeyExpansion(key) ==
  LET w0 == [i \in 1..4 |-> SubSeq(key, 4 * (i - 1) + 1, 4 * i)]
      ext(w, i) ==     \* i = 5..44 (1-based index of the word being produced)
        LET prev == w[i - 1]
            t == IF (i - 1) % 4 = 0
                 THEN LET rot == << prev[2], prev[3], prev[4], prev[1] >>
                          sub == [j \in 1..4 |-> SBox[rot[j]]]
                      IN << sub[1] ^^ Rcon[(i - 1) \div 4], sub[2], sub[3], sub[4] >>
                 ELSE prev
        IN Append(w, XorBytes(w[i - 4], t))
  IN FoldLeft(ext, w0, Iota(5, 44))
\* round key r (0..10) as 16 bytes
RoundKey(w, r) == w[4 * r + 1] \o w[4 * r + 2] \o w[4 * r + 3] \o w[4 * r + 4]

Cipher(key, in) ==
  LET w == KeyExpansion(key)
      rnd(s, r) == XorBytes(MixColumns(ShiftRows(SubBytes(s))), RoundKey(w, r))
      s9 == FoldLeft(rnd, XorBytes(in, RoundKey(w, 0)), Iota(1, 9))
  IN XorBytes(ShiftRows(SubBytes(s9)), RoundKey(w, 10))

InvCipher(key, in) ==
  LET w == KeyExpansion(key)
      rnd(s, r) == InvMixColumns(XorBytes(InvSubBytes(InvShiftRows(s)), RoundKey(w, r)))
      s1 == FoldLeft(rnd, XorBytes(in, RoundKey(w, 10)), Reverse(Iota(1, 9)))
  IN XorBytes(InvSubBytes(InvShiftRows(s1)), RoundKey(w, 0))

\* a key schedule can be shared over many blocks
CipherW(w, in) ==
  LET rnd(s, r) == XorBytes(MixColumns(ShiftRows(SubBytes(s))), RoundKey(w, r))
      s9 == FoldLeft(rnd, XorBytes(in, RoundKey(w, 0)), Iota(1, 9))
  IN XorBytes(ShiftRows(SubBytes(s9)), RoundKey(w, 10))
InvCipherW(w, in) ==
  LET rnd(s, r) == InvMixColumns(XorBytes(InvSubBytes(InvShiftRows(s)), RoundKey(w, r)))
      s1 == FoldLeft(rnd, XorBytes(in, RoundKey(w, 10)), Reverse(Iota(1, 9)))
  IN XorBytes(InvSubBytes(InvShiftRows(s1)), RoundKey(w, 0))
=============================================================================
