CONSTANTS MaxN = 0  HBufs = {1}  LenBeforeExtra = TRUE  CounterWrap = 0
SPECIFICATION Spec2
INVARIANTS Finished RunProps
CHECK_DEADLOCK FALSE
