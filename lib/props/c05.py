"""C05 - a modified encrypted file never decrypts successfully to different plaintext."""
import json
import wv
from props import filelevel as fl
PID = "C05"


def run(tier, replay):
    res = wv.Result(PID, "model_checking", tier)
    wv.design_runs(res, [("Tamper", "MC_Tamper", True), ("Tamper", "MC_Tamper_noD3", False)] + ([("Tamper", "MC_Tamper_deep", True)] if tier == "thorough" else []), workers=8 if tier == "thorough" else 4)
    if replay:
        events = json.load(open(replay))["replay"]["events"]
    else:
        if tier == "quick":
            jobs = [["tamper", 1, 0, 1, 0, 0], ["tamper", 2, 50, 2, 2, 0, "zt"], ["tamper", 4, 20, 3, 1, 0], ["tamper", 1, 150, 4, 0, 0, "zt"],
                    ["stride13", "tamper", 2, 700, 1, 2, 0]]      # a file longer than 255 / 512 bytes (offsets beyond one byte, many chunks and hash windows): body positions sampled with stride 13
        else:
            jobs = [["tamper", T, n, (n + T) % 5, (n // 5 + T) % 3, 1] + (["zt"] if (n + T) % 2 else []) for T in (1, 2, 3, 4) for n in (0, 20, 50, 70, 100, 150)] + \
                   [["tamper", 2, 40, cm, hm, 0] for cm in range(5) for hm in range(3)] + [["tamper", 16, 33, 1, 2, 0]]
        events = fl.collect(res, PID, jobs)
    st, nfull = fl.judge(res, PID, events, full_sample=60 if tier == "quick" else 3000)
    ops = [e for e in events if e["e"] == "op"]
    keys = set((e["kind"], e["T"], len(e["oC"]), min(e["pos"], 200) if e["kind"] != "set" else (e["pos"], e["val"] > 255)) for e in ops)
    res.cov.update({"traces_validated_against_impl": len(ops), "evaluations": len(ops), "distinct_nontrivial": len(keys), "recomputed_with_real_hmac": nfull,
                    "rule": "design: Tamper.tla (ideal MAC, symbolic file) - TLC explores every single tampering (set / insert / delete / truncate / extend / swap at every position) and pairs in thorough; TamperSafe holds except for the D3 family, which the second configuration (no exemption) must exhibit. Binding: real files (sizes/T/modes listed in the jobs), every byte position x {^01,^80,:=00,:=FF} (bytes 8,9: also every value 0..7,127,255), every truncation length, extensions, insert/delete per region boundary/interior, all block/chunk/IV swaps, splices; execute_verify and execute_decrypt under ASan in forked batches; TLC judges each outcome with the ideal acceptance oracle and a seeded sample with the real HMAC recomputed. Distinct = (kind, T, file size, position[, value class]).",
                    "validator_states": st["states"], "exhaustive": False})
    for e in ops[:: max(1, len(ops) // 4)][:4]:
        res.sample(fl.describe(e))
    res.assumptions += ["HMAC has no collisions/forgeries on the explored inputs (ideal MAC); cross-checked on a sample with the executable HMAC", "contents/keys sampled, positions and kinds enumerated"]
    return res.finish()
