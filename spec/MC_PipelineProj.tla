--------------------------- MODULE MC_PipelineProj ---------------------------
(***************************************************************************)
(* Refinement mapping from Pipeline.tla to OneBuffer.tla: the projection   *)
(* of the pipeline onto buffer i.  Steps of other buffers' workers, of the *)
(* I/O thread while it serves another buffer, thread creation and joining  *)
(* are stuttering steps of OneBuffer; the I/O thread turning to buffer i   *)
(* is Arrive, its turn_iter after serving i is Leave, the end of input     *)
(* noticed at another buffer is OverElsewhere.                             *)
(***************************************************************************)
EXTENDS MC_Pipeline
Visit == {"wu0", "wu1", "wup", "wuw", "wu2", "bu", "ex0", "ex1", "ld0", "ld1", "sr0", "sr1", "sr2"}
OB(i) == INSTANCE OneBuffer WITH
           s  <- st[i],
           m  <- IF mtx[i] = NoOne THEN "none" ELSE IF mtx[i] = IO THEN "io" ELSE "w",
           wR <- i \in cvR[i],
           wU <- IO \in cvU[i],
           b  <- [total |-> buf[i].total, now |-> buf[i].now, final |-> buf[i].final],
           pw <- pcw[i],
           pi <- IF turn = i /\ pcio \in Visit THEN pcio ELSE "away",
           ov <- over,
           ls <- IF turn = i /\ pcio \in {"ex0", "ex1", "ld0", "ld1", "sr0", "sr1"} THEN lstate ELSE "NODATA"
\* TLC wants one formula per instance
Refines0 == OB(0)!Spec
Refines1 == OB(1)!Spec
Refines2 == OB(2)!Spec
Refines3 == OB(3)!Spec
RefinesLast == OB(T - 1)!Spec
=============================================================================
