---- MODULE KatHash ----
EXTENDS Naturals, Sequences, TLC
S1 == INSTANCE SHA1
M5 == INSTANCE MD5
S2 == INSTANCE SHA256
abc == <<97,98,99>>
ASSUME PrintT(<<"sha1", S1!Digest(abc)>>)
ASSUME PrintT(<<"md5", M5!Digest(abc)>>)
ASSUME PrintT(<<"sha256", S2!Digest(abc)>>)
ASSUME PrintT(<<"sha1 56a", S1!Digest([i \in 1..56 |-> 97])>>)
====
