CONSTANTS Sizes = {32}  Threads = {2}  EofPeek = FALSE
SPECIFICATION Spec
INVARIANTS NoHang
CHECK_DEADLOCK FALSE
