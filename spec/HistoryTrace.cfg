SPECIFICATION Spec
INVARIANT Finished
CHECK_DEADLOCK FALSE
