CONSTANTS MaxN = 264  HBufs = {2}  LenBeforeExtra = TRUE  CounterWrap = 256
SPECIFICATION Spec
INVARIANTS LengthExact
CHECK_DEADLOCK FALSE
