------------------------------- MODULE Tamper -------------------------------
(***************************************************************************)
(* C05, design level: the closure of an authentic file under the byte-     *)
(* level modifications of the property (set, insert, delete, truncate,     *)
(* extend, swap blocks / IVs), up to Depth modifications, with the ideal   *)
(* MAC of Wencry.tla.  TLC reports exactly one family of accepted files    *)
(* whose plaintext differs: offset 8 set to another valid mode (D3).       *)
(***************************************************************************)
EXTENDS Wencry, TLC
CONSTANTS Ts, NBs, Depth, ExemptD3
VARIABLES A, f, d, T, key
vars == <<A, f, d, T, key>>
RT == << << A[10][2], "k", Region(A) >> >>       \* the only tag the attacker has: the authentic one

Init == \E t \in Ts, nb \in NBs, cm \in {1}, hm \in {0, 1, 2} :
          /\ T = t /\ A = Authentic(cm, hm, t, nb) /\ f = A /\ d = 0 /\ key = "k"
Vals(p) == IF p \in {9, 10} THEN {V(0), V(2), V(3), V(4), V(5), V(255), X(1)} ELSE {V(0), X(1)}
SetAt == \E p \in 1..Len(f) : \E v \in Vals(p) : v # f[p] /\ f' = [f EXCEPT ![p] = v]
InsertAt == \E p \in 0..Len(f) : f' = Sub(f, 1, p) \o << X(2) >> \o Sub(f, p + 1, Len(f))
DeleteAt == \E p \in 1..Len(f) : f' = Sub(f, 1, p - 1) \o Sub(f, p + 1, Len(f))
Truncate == \E n \in 0..(Len(f) - 1) : f' = Sub(f, 1, n)
Extend == \E k \in {1, 16, 20} : \E c \in {V(0), X(3)} : f' = f \o [i \in 1..k |-> c]
SwapBlocks == LET tm == 48 + 20 * T  nb == (Len(f) - tm) \div 16 IN
              \E i, j \in 0..(nb - 1) : i < j /\
                 f' = [p \in 1..Len(f) |->
                        IF p > tm + 16 * i /\ p <= tm + 16 * i + 16 THEN f[p + 16 * (j - i)]
                        ELSE IF p > tm + 16 * j /\ p <= tm + 16 * j + 16 THEN f[p - 16 * (j - i)] ELSE f[p]]
SwapIVs == \E i, j \in 0..(T - 1) : i < j /\ Len(f) >= 48 + 20 * T /\
                 f' = [p \in 1..Len(f) |->
                        IF p > 48 + 20 * i /\ p <= 48 + 20 * i + 20 THEN f[p + 20 * (j - i)]
                        ELSE IF p > 48 + 20 * j /\ p <= 48 + 20 * j + 20 THEN f[p - 20 * (j - i)] ELSE f[p]]
Next == /\ d < Depth /\ d' = d + 1 /\ UNCHANGED <<A, T, key>>
        /\ (SetAt \/ InsertAt \/ DeleteAt \/ Truncate \/ Extend \/ SwapBlocks \/ SwapIVs)
Spec == Init /\ [][Next]_vars

Accepted == Verify(f, key, RT) = 0
\* the D3 family: accepted, same length, offset 8 holds another valid cipher mode
D3 == Len(f) = Len(A) /\ f[9] # A[9] /\ IsVal(f[9]) /\ f[9][2] <= 4
TamperSafe == Accepted => (Plain(f, A) = "P" \/ (ExemptD3 /\ D3))
\* accepted modified files differ from the authentic one only in bytes that carry no information
OnlyPadding == (Accepted /\ f # A /\ ~D3) =>
                 /\ Len(f) = Len(A)
                 /\ \A p \in 1..Len(f) : f[p] # A[p] => (p > 10 + HLen(A[10][2]) /\ p <= 48)
\* a wrong key never verifies (C06)
WrongKey == Verify(f, "other", RT) # 0
=============================================================================
