------------------------------- MODULE Bytes -------------------------------
(***************************************************************************)
(* Bytes, byte strings and 32-bit words for the executable layers of the   *)
(* wencry specification.                                                   *)
(*                                                                         *)
(* TLC integers are 32-bit signed, so a 32-bit word is the pair            *)
(* <<hi16, lo16>>.  A byte string is a sequence of 0..255.                 *)
(***************************************************************************)
EXTENDS Naturals, Sequences, SequencesExt, Bitwise

Byte == 0..255
IsBytes(s) == \A i \in 1..Len(s) : s[i] \in Byte

P2 == <<2, 4, 8, 16, 32, 64, 128, 256, 512, 1024, 2048, 4096, 8192, 16384, 32768, 65536>>
Pow2(n) == IF n = 0 THEN 1 ELSE P2[n]

\* ---- byte strings -----------------------------------------------------
Zeros(n) == [i \in 1..n |-> 0]
Rep(v, n) == [i \in 1..n |-> v]
XorBytes(a, b) == [i \in 1..Len(a) |-> a[i] ^^ b[i]]
Take(s, n) == SubSeq(s, 1, n)
Drop(s, n) == SubSeq(s, n + 1, Len(s))
Slice(s, from0, n) == SubSeq(s, from0 + 1, from0 + n)      \* 0-based offset, n bytes
PadTo(s, n, v) == s \o Rep(v, n - Len(s))

\* ---- 32-bit words -----------------------------------------------------
W(hi, lo) == <<hi, lo>>
WZero == <<0, 0>>
WXor(a, b) == <<a[1] ^^ b[1], a[2] ^^ b[2]>>
WAnd(a, b) == <<a[1] & b[1], a[2] & b[2]>>
WOr(a, b)  == <<a[1] | b[1], a[2] | b[2]>>
WNot(a)    == <<65535 - a[1], 65535 - a[2]>>
WAdd(a, b) == LET lo == a[2] + b[2]
                  hi == a[1] + b[1] + (lo \div 65536)
              IN <<hi % 65536, lo % 65536>>
WAdd3(a, b, c) == WAdd(WAdd(a, b), c)
WAdd4(a, b, c, d) == WAdd(WAdd(a, b), WAdd(c, d))
WAdd5(a, b, c, d, e) == WAdd(WAdd4(a, b, c, d), e)

\* rotate left by n in 0..31
Rotl(a, n) ==
  LET s == IF n >= 16 THEN <<a[2], a[1]>> ELSE a
      k == n % 16
  IN IF k = 0 THEN s
     ELSE LET up == Pow2(k)  dn == Pow2(16 - k)
          IN << ((s[1] * up) % 65536) + (s[2] \div dn),
                ((s[2] * up) % 65536) + (s[1] \div dn) >>
Rotr(a, n) == Rotl(a, (32 - n) % 32)
\* logical shift right by n in 0..31
Shr(a, n) ==
  IF n >= 16 THEN <<0, a[1] \div Pow2(n - 16)>>
  ELSE IF n = 0 THEN a
  ELSE LET dn == Pow2(n) up == Pow2(16 - n)
       IN << a[1] \div dn, (a[2] \div dn) + ((a[1] % dn) * up) >>

\* big-/little-endian packing (off0 is a 0-based byte offset)
BEWord(s, off0) == << s[off0 + 1] * 256 + s[off0 + 2], s[off0 + 3] * 256 + s[off0 + 4] >>
LEWord(s, off0) == << s[off0 + 4] * 256 + s[off0 + 3], s[off0 + 2] * 256 + s[off0 + 1] >>
BEBytes(w) == << w[1] \div 256, w[1] % 256, w[2] \div 256, w[2] % 256 >>
LEBytes(w) == << w[2] % 256, w[2] \div 256, w[1] % 256, w[1] \div 256 >>
WordOf(hi, lo) == <<hi, lo>>
\* a word from a hex constant given as two 16-bit halves is written W(16^^.., ..) by hand;
\* TLA+ has no hex literals, so constants are decimal halves generated mechanically.

\* ---- 64-bit lengths as four 16-bit limbs, most significant first -------
\* bit length of an n-byte message, n given as <<n_hi, n_lo>> limbs of 2^16 (n < 2^32)
\* or directly as a small Nat.
BitLen64(n) ==   \* n : Nat < 2^28 (so that 8n fits a TLC int)
  LET b == 8 * n
  IN << 0, 0, b \div 65536, b % 65536 >>
\* general form: byte count as limbs <<l3,l2,l1,l0>> (base 65536, most significant first)
Limbs8(l) ==
  LET x0 == l[4] * 8  x1 == l[3] * 8 + (x0 \div 65536)
      x2 == l[2] * 8 + (x1 \div 65536)  x3 == l[1] * 8 + (x2 \div 65536)
  IN << x3 % 65536, x2 % 65536, x1 % 65536, x0 % 65536 >>
LimbsBE(l) == << l[1] \div 256, l[1] % 256, l[2] \div 256, l[2] % 256,
                 l[3] \div 256, l[3] % 256, l[4] \div 256, l[4] % 256 >>
LimbsLE(l) == Reverse(LimbsBE(l))
NatLimbs(n) == << 0, 0, n \div 65536, n % 65536 >>

\* ---- folding helpers ---------------------------------------------------
Iota(a, b) == [i \in 1..(b - a + 1) |-> a + i - 1]        \* <<a, a+1, .., b>>
ConcatAll(ss) == LET cat(acc, x) == acc \o x IN FoldLeft(cat, <<>>, ss)
\* split a byte string whose length is a multiple of n into n-byte pieces
Pieces(s, n) == [i \in 1..(Len(s) \div n) |-> SubSeq(s, (i - 1) * n + 1, i * n)]
=============================================================================
