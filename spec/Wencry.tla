------------------------------- MODULE Wencry -------------------------------
(***************************************************************************)
(* The system at file level with IDEAL cryptography (the CryptoIdeal       *)
(* reading of DESIGN.md): files are sequences of symbolic cells, a tag is  *)
(* a token that names the (hash mode, key, covered bytes) it was computed  *)
(* over, and a computed tag equals a stored one only if the two name the   *)
(* same triple - i.e. HMAC has no collisions or forgeries.  Used by the    *)
(* tamper (C05), wrong-key (C06), garbage (C11) and crash (C13) models.    *)
(*                                                                         *)
(* Cells are triples <<kind, n, x>>:                                       *)
(*   <<"m", i, 0>>   i-th magic byte          <<"v", b, 0>>  plain value b *)
(*   <<"t", i, r>>   i-th byte of the tag over region number r             *)
(*   <<"i", k, 0>>   k-th IV byte             <<"c", k, 0>>  k-th body byte*)
(*   <<"x", k, 0>>   foreign byte (attacker / garbage)                     *)
(***************************************************************************)
EXTENDS Naturals, Sequences, FiniteSets

HLen(hm) == CASE hm = 0 -> 20 [] hm = 1 -> 16 [] hm = 2 -> 32 [] OTHER -> 0
MagicCells == [i \in 1..8 |-> <<"m", i, 0>>]
V(b) == <<"v", b, 0>>
X(k) == <<"x", k, 0>>
TagCells(hm, r) == [i \in 1..HLen(hm) |-> <<"t", i, r>>]
IVCells(T) == [k \in 1..(20 * T) |-> <<"i", k, 0>>]
BodyCells(nb) == [k \in 1..(16 * nb) |-> <<"c", k, 0>>]
Zeros(n) == [i \in 1..n |-> V(0)]
Sub(s, a, b) == IF a > b THEN <<>> ELSE SubSeq(s, a, b)
Region(f) == Sub(f, 49, Len(f))                       \* bytes from offset 48 to the end

\* the authentic file for (cm, hm, T, nb): its tag is the tag over region number 1
Authentic(cm, hm, T, nb) ==
  MagicCells \o << V(cm), V(hm) >> \o TagCells(hm, 1) \o Zeros(38 - HLen(hm)) \o IVCells(T) \o BodyCells(nb)

\* Known regions: RegionTable[r] = <<hm, key, covered cells>>; the tag token <<"t", i, r>> is byte i of
\* Mac(RegionTable[r]).  A stored tag matches the tag computed for (hm, key, region) iff all its cells
\* are tag tokens of one region number whose table entry is exactly that triple.
TagMatches(stored, hm, key, region, RegionTable) ==
  /\ Len(stored) = HLen(hm) /\ HLen(hm) > 0
  /\ \E r \in 1..Len(RegionTable) :
        /\ RegionTable[r] = << hm, key, region >>
        /\ \A i \in 1..HLen(hm) : stored[i] = <<"t", i, r>>

IsVal(c) == c[1] = "v"
\* result codes of runcrypt::verify (0 ok, 4 magic, 3 mode byte, 1 too short, 2 tag)
Verify(f, key, RegionTable) ==
  IF Len(f) < 8 \/ Sub(f, 1, 8) # MagicCells THEN 4
  ELSE IF Len(f) >= 10 /\ (~IsVal(f[9]) \/ ~IsVal(f[10]) \/ f[9][2] > 4 \/ f[10][2] > 2) THEN 3
  ELSE IF Len(f) < 74 THEN 1
  ELSE IF ~TagMatches(Sub(f, 11, 10 + HLen(f[10][2])), f[10][2], key, Region(f), RegionTable) THEN 2
  ELSE 0
\* what decryption of an accepted file delivers: the original plaintext iff the cipher-mode byte and
\* the body/IVs are the authentic ones (ideal cipher: anything else yields different bytes)
Plain(f, A) == IF f[9] = A[9] /\ Region(f) = Region(A) THEN "P" ELSE "garbage"
=============================================================================
