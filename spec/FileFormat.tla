----------------------------- MODULE FileFormat -----------------------------
(***************************************************************************)
(* The .wenc file as a function of (plaintext, key, cipher mode, hash      *)
(* mode, seed, T, S), built from the executable standards modules, and the *)
(* verify / decrypt functions on byte strings.  This is the format C02     *)
(* describes:                                                              *)
(*   0  magic C3 A5 C3 A5 C3 A5 C3 A5     8  cipher mode   9  hash mode    *)
(*  10  HMAC_hm(key, file[48..]) then zeros up to 48                       *)
(*  48  T IVs of 20 bytes: iv1 = SHA1(seed), iv(i+1) = SHA1(iv(i))         *)
(*  48+20T  PKCS#7-padded plaintext; chunk j (S bytes) is enciphered by    *)
(*          stream j mod T; every stream is an SP 800-38A mode instance    *)
(*          started from StreamIV(j) and continued across its chunks.      *)
(* StreamIV(j) = first 16 bytes of iv1 for every j: the format as C02      *)
(* states it and as the code has it (finding D8, C18).  PerStreamIV = TRUE *)
(* gives the alternative hypothesis iv(j+1)[1..16] used only to identify   *)
(* which of the two behaviours a recorded file shows.                      *)
(***************************************************************************)
EXTENDS Naturals, Sequences, Bytes
LOCAL H == INSTANCE HMAC
LOCAL M == INSTANCE ModesAES
LOCAL Ck == INSTANCE Chunking

Magic == << 195, 165, 195, 165, 195, 165, 195, 165 >>
MN_MARK == 0  MODE_MARK == 8  HMAC_MARK == 10  IV_MARK == 48
TextMark(T) == 48 + 20 * T

\* IV chain
RECURSIVE IVChain(_, _)
IVChain(prev, k) == IF k = 0 THEN <<>> ELSE LET nx == H!Hash(0, prev) IN << nx >> \o IVChain(nx, k - 1)
IVs(seed, T) == IVChain(seed, T)              \* sequence of T 20-byte strings

Pkcs7(P) == P \o Rep(16 - (Len(P) % 16), 16 - (Len(P) % 16))

\* body transformation: blocks in file order, block b handled by stream (b div (S/16)) mod T
StreamIV(ivs, j, PerStreamIV) == Take(IF PerStreamIV THEN ivs[j + 1] ELSE ivs[1], 16)
Body(enc, data, key, cm, ivs, T, S, PerStreamIV) ==
  LET k == M!Schedule(key)
      blocks == Pieces(data, 16)
      regs0 == [j \in 0..(T - 1) |-> StreamIV(ivs, j, PerStreamIV)]
      step(st, b) ==       \* st = <<regs, out>>, b = 1-based block index
        LET j == Ck!Owner(Ck!ChunkOfBlock(b - 1, S), T)
            r == M!Step(enc, cm, k, st[1][j], blocks[b])
        IN << [st[1] EXCEPT ![j] = r[2]], st[2] \o r[1] >>
  IN FoldLeft(step, << regs0, <<>> >>, Iota(1, Len(blocks)))[2]

\* file with a given tag field
Assemble(cm, hm, tag, ivs, body) ==
  Magic \o << cm, hm >> \o tag \o Zeros(38 - Len(tag)) \o ConcatAll(ivs) \o body

EncryptBytesH(P, key, cm, hm, seed, T, S, PerStreamIV) ==
  LET ivs == IVs(seed, T)
      body == Body(TRUE, Pkcs7(P), key, cm, ivs, T, S, PerStreamIV)
      tag == H!Mac(hm, key, ConcatAll(ivs) \o body)
  IN Assemble(cm, hm, tag, ivs, body)
EncryptBytes(P, key, cm, hm, seed, T, S) == EncryptBytesH(P, key, cm, hm, seed, T, S, FALSE)
EncryptedLen(n, T) == 48 + 20 * T + 16 * ((n \div 16) + 1)

\* verify: 0 ok, 4 magic, 1 too short, 3 mode byte out of range, 2 tag mismatch
\* (order of the checks as in runcrypt::verify; only zero / non-zero is a property)
Verify(f, key, T) ==
  IF Len(f) < 8 \/ Take(f, 8) # Magic THEN 4
  ELSE IF Len(f) >= 10 /\ (f[9] > 4 \/ f[10] > 2) THEN 3
  ELSE IF Len(f) < TextMark(T) + 16 \/ (Len(f) - TextMark(T)) % 16 # 0 THEN 1     \* body = whole blocks, at least one
  ELSE IF Len(f) < 74 THEN 1
  ELSE IF ~H!CmpTag(f[10], Slice(f, 10, 64), H!Mac(f[10], key, Drop(f, 48))) THEN 2
  ELSE 0

\* decrypt an accepted file
DecryptBytes(f, key, T, S) ==
  LET cm == f[9]
      ivs == [i \in 1..T |-> Slice(f, 48 + 20 * (i - 1), 20)]
      body == Drop(f, TextMark(T))
      plain == Body(FALSE, body, key, cm, ivs, T, S, FALSE)
      pad == plain[Len(plain)]
  IN Take(plain, Len(plain) - pad)
=============================================================================
