------------------------------- MODULE CLITrace -------------------------------
(***************************************************************************)
(* C17: recorded runs of the real Wencry binary on generated argument      *)
(* vectors, judged against CLI.tla: no signal in any class; class OK =>    *)
(* exit 0 and the operation's effect verified independently; class FAIL => *)
(* non-zero exit and a diagnostic (not demanded under -n).                 *)
(***************************************************************************)
EXTENDS CLI, TLC, Json, IOUtils
Events == ndJsonDeserialize(IOEnv.TRACE)
VARIABLES l, nbad
Why(ev) ==
  LET c == Class(ev.tokens) IN
  IF ev.sig # 0 THEN <<"the program was killed by a signal", ev.sig, "class", c>>
  ELSE IF ev.timeout = 1 THEN <<"the program did not terminate", "class", c>>
  ELSE IF c = "OK" /\ ev.rc # 0 THEN <<"a well-formed request failed; exit status", ev.rc>>
  ELSE IF c = "OK" /\ ev.effect # 1 THEN <<"exit 0 but the effect of the operation is not there", ev.effect_note>>
  ELSE IF c = "FAIL" /\ ev.rc = 0 THEN <<"exit 0 although the request cannot succeed">>
  ELSE IF c = "FAIL" /\ ev.diag # 1 /\ ~Quiet(ev.tokens) THEN <<"non-zero exit without a diagnostic">>
  ELSE IF c = "MAY" /\ ev.rc = 0 /\ ev.effect = 0 THEN <<"exit 0 but the effect of the operation is not there", ev.effect_note>>
  ELSE <<"ok">>
Init == l = 1 /\ nbad = 0
Next == /\ l <= Len(Events)
        /\ LET ev == Events[l]  w == Why(ev)
           IN /\ IF w = <<"ok">> THEN TRUE ELSE PrintT(<<"BAD", l, ev.id, w>>)
              /\ nbad' = nbad + (IF w = <<"ok">> THEN 0 ELSE 1)
        /\ l' = l + 1
Finished == (l = Len(Events) + 1) => PrintT(<<"DONE", Len(Events), nbad>>)
Spec == Init /\ [][Next]_<<l, nbad>>
=============================================================================
