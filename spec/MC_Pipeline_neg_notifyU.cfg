CONSTANTS T = 2  N = 70  S = 32  Dir = "enc"  EofPeek = TRUE  Pad = 0
  Gate = TRUE  NotifyReady = TRUE  NotifyUpdate = FALSE  WaitLoop = TRUE  ReadyTest = TRUE  Spurious = FALSE  Unbounded = FALSE
  Loads <- MCLoads  DecPad <- MCDecPad
SPECIFICATION Spec
INVARIANTS TypeOK Exclusive NoUnderflow InOrder OutPrefix OutExact Quiescent LockDiscipline

