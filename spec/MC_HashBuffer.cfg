CONSTANTS MaxN = 264  HBufs = {1, 2, 3}  LenBeforeExtra = TRUE  CounterWrap = 0
SPECIFICATION Spec
INVARIANTS UnitsPrefix UnitsExact LengthExact InBounds
PROPERTY Terminates
CHECK_DEADLOCK FALSE
