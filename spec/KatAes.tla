---- MODULE KatAes ----
EXTENDS Naturals, Sequences, TLC
A == INSTANCE AES128
key == [i \in 1..16 |-> i-1]
pt == [i \in 1..16 |-> 17*(i-1)]
ASSUME PrintT(<<"sbox", A!SBox[0], A!SBox[1], A!SBox[83], A!SBox[255]>>)
ASSUME PrintT(<<"c1", A!Cipher(key, pt)>>)
ASSUME PrintT(<<"inv", A!InvCipher(key, A!Cipher(key, pt)) = pt>>)
====
