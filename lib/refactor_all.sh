#!/bin/bash
# usage: lib/refactor_all.sh [ids..]   re-runs every stored behaviour-preserving refactoring (refactors/<id>/patch.diff)
# against all quick checks: each in a scratch worktree of /repo HEAD (removed afterwards); every line must say exit=0.
ids="$@"; [ -z "$ids" ] && ids=$(ls /verif/refactors)
for r in $ids; do
  W=/var/tmp/wv-rf-$r; git -C /repo worktree remove --force $W 2>/dev/null; rm -rf $W
  git -C /repo worktree add --detach $W HEAD -q || exit 2
  git -C $W apply --3way /verif/refactors/$r/patch.diff 2>/dev/null || { echo "$r: patch does not apply"; git -C /repo worktree remove --force $W; continue; }
  /verif/lib/refactortest.sh $W
  git -C /repo worktree remove --force $W; rm -rf $W /var/tmp/wv-ref/$(basename $W)
done
git -C /repo worktree prune
