---- MODULE MC_HashBuffer_TTrace_1790439333 ----
EXTENDS Sequences, TLCExt, Toolbox, Naturals, TLC, MC_HashBuffer

_expression ==
    LET MC_HashBuffer_TEExpression == INSTANCE MC_HashBuffer_TEExpression
    IN MC_HashBuffer_TEExpression!expression
----

_trace ==
    LET MC_HashBuffer_TETrace == INSTANCE MC_HashBuffer_TETrace
    IN MC_HashBuffer_TETrace!trace
----

_inv ==
    ~(
        TLCGet("level") = Len(_TETrace)
        /\
        tail = (0)
        /\
        hasPrefix = (FALSE)
        /\
        units = (<<<<1, 2, 3, 4, 5, 6, 7, 8, 9, 10, 11, 12, 13, 14, 15, 16, 17, 18, 19, 20, 21, 22, 23, 24, 25, 26, 27, 28, 29, 30, 31, 32, 33, 34, 35, 36, 37, 38, 39, 40, 41, 42, 43, 44, 45, 46, 47, 48, 49, 50, 51, 52, 53, 54, 55, 56>>>>)
        /\
        n = (56)
        /\
        hasExtra = (FALSE)
        /\
        lenField = (120)
        /\
        total = (0)
        /\
        pc = ("done")
        /\
        now = (1)
        /\
        counted = (120)
        /\
        hbuf = (2)
        /\
        fpos = (56)
        /\
        base = (0)
    )
----

_init ==
    /\ tail = _TETrace[1].tail
    /\ hbuf = _TETrace[1].hbuf
    /\ fpos = _TETrace[1].fpos
    /\ counted = _TETrace[1].counted
    /\ n = _TETrace[1].n
    /\ hasExtra = _TETrace[1].hasExtra
    /\ now = _TETrace[1].now
    /\ units = _TETrace[1].units
    /\ pc = _TETrace[1].pc
    /\ base = _TETrace[1].base
    /\ lenField = _TETrace[1].lenField
    /\ total = _TETrace[1].total
    /\ hasPrefix = _TETrace[1].hasPrefix
----

_next ==
    /\ \E i,j \in DOMAIN _TETrace:
        /\ \/ /\ j = i + 1
              /\ i = TLCGet("level")
        /\ tail  = _TETrace[i].tail
        /\ tail' = _TETrace[j].tail
        /\ hbuf  = _TETrace[i].hbuf
        /\ hbuf' = _TETrace[j].hbuf
        /\ fpos  = _TETrace[i].fpos
        /\ fpos' = _TETrace[j].fpos
        /\ counted  = _TETrace[i].counted
        /\ counted' = _TETrace[j].counted
        /\ n  = _TETrace[i].n
        /\ n' = _TETrace[j].n
        /\ hasExtra  = _TETrace[i].hasExtra
        /\ hasExtra' = _TETrace[j].hasExtra
        /\ now  = _TETrace[i].now
        /\ now' = _TETrace[j].now
        /\ units  = _TETrace[i].units
        /\ units' = _TETrace[j].units
        /\ pc  = _TETrace[i].pc
        /\ pc' = _TETrace[j].pc
        /\ base  = _TETrace[i].base
        /\ base' = _TETrace[j].base
        /\ lenField  = _TETrace[i].lenField
        /\ lenField' = _TETrace[j].lenField
        /\ total  = _TETrace[i].total
        /\ total' = _TETrace[j].total
        /\ hasPrefix  = _TETrace[i].hasPrefix
        /\ hasPrefix' = _TETrace[j].hasPrefix

\* Uncomment the ASSUME below to write the states of the error trace
\* to the given file in Json format. Note that you can pass any tuple
\* to `JsonSerialize`. For example, a sub-sequence of _TETrace.
    \* ASSUME
    \*     LET J == INSTANCE Json
    \*         IN J!JsonSerialize("MC_HashBuffer_TTrace_1790439333.json", _TETrace)

=============================================================================

 Note that you can extract this module `MC_HashBuffer_TEExpression`
  to a dedicated file to reuse `expression` (the module in the 
  dedicated `MC_HashBuffer_TEExpression.tla` file takes precedence 
  over the module `MC_HashBuffer_TEExpression` below).

---- MODULE MC_HashBuffer_TEExpression ----
EXTENDS Sequences, TLCExt, Toolbox, Naturals, TLC, MC_HashBuffer

expression == 
    [
        \* To hide variables of the `MC_HashBuffer` spec from the error trace,
        \* remove the variables below.  The trace will be written in the order
        \* of the fields of this record.
        tail |-> tail
        ,hbuf |-> hbuf
        ,fpos |-> fpos
        ,counted |-> counted
        ,n |-> n
        ,hasExtra |-> hasExtra
        ,now |-> now
        ,units |-> units
        ,pc |-> pc
        ,base |-> base
        ,lenField |-> lenField
        ,total |-> total
        ,hasPrefix |-> hasPrefix
        
        \* Put additional constant-, state-, and action-level expressions here:
        \* ,_stateNumber |-> _TEPosition
        \* ,_tailUnchanged |-> tail = tail'
        
        \* Format the `tail` variable as Json value.
        \* ,_tailJson |->
        \*     LET J == INSTANCE Json
        \*     IN J!ToJson(tail)
        
        \* Lastly, you may build expressions over arbitrary sets of states by
        \* leveraging the _TETrace operator.  For example, this is how to
        \* count the number of times a spec variable changed up to the current
        \* state in the trace.
        \* ,_tailModCount |->
        \*     LET F[s \in DOMAIN _TETrace] ==
        \*         IF s = 1 THEN 0
        \*         ELSE IF _TETrace[s].tail # _TETrace[s-1].tail
        \*             THEN 1 + F[s-1] ELSE F[s-1]
        \*     IN F[_TEPosition - 1]
    ]

=============================================================================



Parsing and semantic processing can take forever if the trace below is long.
 In this case, it is advised to uncomment the module below to deserialize the
 trace from a generated binary file.

\*
\*---- MODULE MC_HashBuffer_TETrace ----
\*EXTENDS IOUtils, TLC, MC_HashBuffer
\*
\*trace == IODeserialize("MC_HashBuffer_TTrace_1790439333.bin", TRUE)
\*
\*=============================================================================
\*

---- MODULE MC_HashBuffer_TETrace ----
EXTENDS TLC, MC_HashBuffer

trace == 
    <<
    ([tail |-> 0,hasPrefix |-> FALSE,units |-> <<>>,n |-> 56,hasExtra |-> FALSE,lenField |-> 0,total |-> 0,pc |-> "ctor",now |-> 0,counted |-> 0,hbuf |-> 2,fpos |-> 0,base |-> 0]),
    ([tail |-> 56,hasPrefix |-> FALSE,units |-> <<>>,n |-> 56,hasExtra |-> FALSE,lenField |-> 0,total |-> 0,pc |-> "loop",now |-> 0,counted |-> 0,hbuf |-> 2,fpos |-> 56,base |-> 0]),
    ([tail |-> 0,hasPrefix |-> FALSE,units |-> <<<<1, 2, 3, 4, 5, 6, 7, 8, 9, 10, 11, 12, 13, 14, 15, 16, 17, 18, 19, 20, 21, 22, 23, 24, 25, 26, 27, 28, 29, 30, 31, 32, 33, 34, 35, 36, 37, 38, 39, 40, 41, 42, 43, 44, 45, 46, 47, 48, 49, 50, 51, 52, 53, 54, 55, 56>>>>,n |-> 56,hasExtra |-> FALSE,lenField |-> 120,total |-> 0,pc |-> "done",now |-> 1,counted |-> 120,hbuf |-> 2,fpos |-> 56,base |-> 0])
    >>
----


=============================================================================

---- CONFIG MC_HashBuffer_TTrace_1790439333 ----
CONSTANTS
    MaxN = 130
    HBufs = { 2 }
    LenBeforeExtra = FALSE
    CounterWrap = 0

INVARIANT
    _inv

CHECK_DEADLOCK
    \* CHECK_DEADLOCK off because of PROPERTY or INVARIANT above.
    FALSE

INIT
    _init

NEXT
    _next

CONSTANT
    _TETrace <- _trace

ALIAS
    _expression
=============================================================================
\* Generated on Sat Sep 26 16:15:35 UTC 2026