---- MODULE KatMisc ----
EXTENDS Naturals, Sequences, TLC
M == INSTANCE ModesAES
B == INSTANCE Base64
H == INSTANCE HMAC
key == <<43,126,21,22,40,174,210,166,171,247,21,136,9,207,79,60>>
iv == [i \in 1..16 |-> i-1]
pt1 == <<107,193,190,226,46,64,159,150,233,61,126,17,115,147,23,42>>
k == M!Schedule(key)
ASSUME PrintT(<<"cbc", M!Run(TRUE, 1, k, iv, <<pt1>>)[1]>>)
ASSUME PrintT(<<"inc", M!Inc128([i \in 1..16 |-> 255]), M!Inc128([i \in 1..16 |-> IF i > 14 THEN 255 ELSE 1])>>)
ASSUME PrintT(<<"b64", B!Encode(<<102,111,111,98,97>>), B!Decode(B!Encode(<<102,111,111,98,97>>))>>)
ASSUME PrintT(<<"hmac", H!Mac(0, [i \in 1..20 |-> 11], <<72,105,32,84,104,101,114,101>>)>>)
====
