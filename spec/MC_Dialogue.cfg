CONSTANT MaxRetry = 2
SPECIFICATION FairSpec
INVARIANTS TypeOK Complete OneLinePerQuestion
PROPERTY Terminates
CHECK_DEADLOCK FALSE
