// Real-thread trace recorder for the pipeline (C03/C04/C14, DESIGN 3.3): the pipeline sources are
// compiled UNCHANGED against the production std::mutex / condition_variable / thread; the WV_POINT
// hooks log events with a global atomic sequence number (taken under the lock for the points inside
// critical sections).  Random yields/sleeps at the points diversify the OS schedules.
//   h_rt <T> <dir enc|dec> <n> <executions> <yield-permille>
// Output: one ndjson line per event; executions are separated by {"e":"reset"} lines.
#include "wv_json.h"
#include "multicry.h"
#include <atomic>
#include <thread>
#include <sched.h>
#include <unistd.h>

struct RtEvent
{
  int th;
  const char *tag;
  int arg;
  int st;   // state of the control block, only for points inside its critical section, else -1
  int k;    // block index for "cry", bytes written for "ex1", else -1
};
static std::vector<RtEvent> g_log(1 << 16);
static std::atomic<int> g_seq{0}, g_threads{0};
static thread_local int tl_id = -1;
static thread_local std::mt19937 *tl_rng = nullptr;
static int g_permille = 0;
static int g_T = 2, g_n = 70;
static bool g_enc = true;
static const int DEC_PAD = 5;
static FILE *g_fout = nullptr;

struct wv_probe
{
  static int state_of_turn() { return buffergroup::instance->ctrl[buffergroup::instance->turn].state; }
  static int state_of(int i) { return buffergroup::instance->ctrl[i].state; }
  static void reset_process_state()
  {
    buffergroup::del_instance();
    bufferctrl::live_num = 0;
  }
};
static thread_local int tl_buf = -1; // the buffer a worker thread serves (learnt from its first ge)

static void jitter()
{
  if (!g_permille)
    return;
  if (!tl_rng)
    tl_rng = new std::mt19937((unsigned)(wv_seed() * 7919 + g_seq.load() * 31 + (unsigned long)pthread_self()));
  unsigned r = (*tl_rng)() % 1000;
  if ((int)r < g_permille)
  {
    if (r % 3 == 0)
      usleep((*tl_rng)() % 150);
    else
      sched_yield();
  }
}
static void log_event(const char *tag, int arg, int st, int k)
{
  if (tl_id < 0)
    tl_id = g_threads.fetch_add(1);
  int s = g_seq.fetch_add(1);
  if (s < (int)g_log.size())
    g_log[s] = {tl_id, tag, arg, st, k};
}
static void point_hook(const char *tag, int arg)
{
  jitter();
  int st = -1, k = -1;
  bool io = tl_id == 0;
  if (!strcmp(tag, "ge") || !strcmp(tag, "chk"))
    tl_buf = arg;
  // inside a critical section the state word is stable: log it
  if (!strcmp(tag, "wu") || !strcmp(tag, "sr"))
    st = wv_probe::state_of_turn();
  else if ((!strcmp(tag, "wr") || !strcmp(tag, "su")) && tl_buf >= 0)
    st = wv_probe::state_of(tl_buf);
  if (!strcmp(tag, "ex1"))
    k = (int)ftell(g_fout);
  (void)io;
  log_event(tag, arg, st, k);
}

struct RecMode : public Aesmode
{
  int stream;
  long seq = 0;
  static const u8_t zero[16];
  RecMode(int s) : Aesmode(zero), stream(s) {}
  void runcry(u8_t *block) override
  {
    jitter();
    int k = (block[0] == 16 && block[1] == 16 && block[15] == 16 && block[6] == 16) ? -2 : ((block[0] << 8) | block[1]);
    log_event("cry", stream, -1, k);
    block[2]++;
    block[3] = stream;
    block[4] = (u8_t)(seq >> 8);
    block[5] = (u8_t)seq;
    seq++;
  }
};
const u8_t RecMode::zero[16] = {0};

static std::vector<u8_t> make_input()
{
  std::vector<u8_t> v(g_n);
  for (int i = 0; i < g_n; ++i)
  {
    int k = i / 16, j = i % 16;
    v[i] = j == 0 ? (u8_t)(k >> 8) : j == 1 ? (u8_t)k
                                 : j == 2   ? 0
                                 : j == 3   ? 99
                                 : j == 4   ? 0
                                 : j == 5   ? 99
                                            : 0xEE;
  }
  if (!g_enc && g_n > 0)
    v[g_n - 1] = DEC_PAD;
  return v;
}

int main(int argc, char **argv)
{
  if (argc < 6)
    return 2;
  g_T = atoi(argv[1]);
  g_enc = std::string(argv[2]) == "enc";
  g_n = atoi(argv[3]);
  int execs = atoi(argv[4]);
  g_permille = atoi(argv[5]);
  wv_point_fn = point_hook;
  for (int x = 0; x < execs; ++x)
  {
    g_seq = 0;
    g_threads = 0;
    tl_id = -1;
    std::vector<u8_t> in = make_input();
    FILE *fin = wv_memfile(in);
    g_fout = wv_emptyfile();
    buffergroup *grp = buffergroup::get_instance();
    grp->set_buffergroup(g_T, fin, g_fout, g_enc);
    std::vector<RecMode *> rec;
    Aesmode **modes = new Aesmode *[g_T];
    for (int i = 0; i < g_T; ++i)
    {
      rec.push_back(new RecMode(i));
      modes[i] = rec[i];
    }
    multicry_master *crym = new multicry_master(g_T);
    log_event("begin", 0, -1, -1); // thread 0 = the I/O thread
    crym->run_multicry(modes, [](std::string, size_t) {});
    auto outb = wv_slurp(g_fout);
    int n = std::min((int)g_log.size(), g_seq.load());
    // map OS-thread ordinals to buffer ids: a worker's events carry its buffer id in ge/chk/cry
    std::vector<int> bufof(g_threads.load(), -1);
    for (int i = 0; i < n; ++i)
      if (!strcmp(g_log[i].tag, "ge") || !strcmp(g_log[i].tag, "chk") || !strcmp(g_log[i].tag, "cry"))
        bufof[g_log[i].th] = g_log[i].arg;
    printf("{\"e\":\"reset\",\"x\":%d,\"T\":%d,\"n\":%d,\"events\":%d,\"outlen\":%zu}\n", x, g_T, g_n, n, outb.size());
    for (int i = 0; i < n; ++i)
    {
      const RtEvent &e = g_log[i];
      int th = e.th == 0 ? g_T : bufof[e.th]; // spec thread ids: worker i = i, I/O thread = T
      printf("{\"e\":\"p\",\"seq\":%d,\"th\":%d,\"tag\":\"%s\",\"arg\":%d,\"st\":%d,\"k\":%d}\n", i, th, e.tag, e.arg, e.st, e.k);
    }
    delete crym;
    for (auto r : rec)
      delete r;
    delete[] modes;
    wv_probe::reset_process_state();
    fclose(fin);
    fclose(g_fout);
  }
  printf("{\"e\":\"end\"}\n");
  return 0;
}
