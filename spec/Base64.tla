------------------------------- MODULE Base64 -------------------------------
(***************************************************************************)
(* RFC 4648 section 4 ("base64"), characters as ASCII codes.               *)
(***************************************************************************)
EXTENDS Bytes, FiniteSets

Alphabet == Iota(65, 90) \o Iota(97, 122) \o Iota(48, 57) \o << 43, 47 >>   \* A-Z a-z 0-9 + /
PadChar == 61                                                               \* '='
AlphaSet == {Alphabet[i] : i \in 1..64}
Val(c) == CHOOSE v \in 0..63 : Alphabet[v + 1] = c

\* 24-bit group arithmetic without overflow: three bytes -> four sextets
LOCAL Sextets(b0, b1, b2) ==
  << b0 \div 4, (b0 % 4) * 16 + (b1 \div 16), (b1 % 16) * 4 + (b2 \div 64), b2 % 64 >>

Encode(bytes) ==
  LET n == Len(bytes)
      full == n \div 3
      grp(g) == LET s == Sextets(bytes[3 * g + 1], bytes[3 * g + 2], bytes[3 * g + 3])
                IN [j \in 1..4 |-> Alphabet[s[j] + 1]]
      body == ConcatAll([g \in 1..full |-> grp(g - 1)])
      rest == n % 3
      tail == IF rest = 0 THEN <<>>
              ELSE IF rest = 1
                   THEN LET s == Sextets(bytes[n], 0, 0)
                        IN << Alphabet[s[1] + 1], Alphabet[s[2] + 1], PadChar, PadChar >>
                   ELSE LET s == Sextets(bytes[n - 1], bytes[n], 0)
                        IN << Alphabet[s[1] + 1], Alphabet[s[2] + 1], Alphabet[s[3] + 1], PadChar >>
  IN body \o tail
EncodedLen(n) == 4 * ((n + 2) \div 3)

\* well-formed: length multiple of 4, alphabet characters, at most two '=' and only at the end
WellFormed(s) ==
  /\ Len(s) % 4 = 0
  /\ \E p \in 0..2 : /\ p <= Len(s)
                     /\ \A i \in 1..(Len(s) - p) : s[i] \in AlphaSet
                     /\ \A i \in (Len(s) - p + 1)..Len(s) : s[i] = PadChar
                     /\ (p > 0 => Len(s) >= 4)
NumPad(s) == Cardinality({i \in 1..Len(s) : s[i] = PadChar})
DecodedLen(s) == 3 * (Len(s) \div 4) - NumPad(s)

\* decoding of a well-formed string (non-canonical trailing bits are ignored, 3.5)
Decode(s) ==
  LET q == Len(s) \div 4
      v(i) == IF s[i] = PadChar THEN 0 ELSE Val(s[i])
      grp(g) == LET a == v(4 * g + 1) b == v(4 * g + 2) c == v(4 * g + 3) d == v(4 * g + 4)
                IN << a * 4 + (b \div 16), (b % 16) * 16 + (c \div 4), (c % 4) * 64 + d >>
      all == ConcatAll([g \in 1..q |-> grp(g - 1)])
  IN Take(all, DecodedLen(s))

\* canonical: re-encoding the decoded bytes gives the same string
Canonical(s) == WellFormed(s) /\ Encode(Decode(s)) = s

\* the key-string predicate of wencry: a 24-character encoding of a 16-byte value
KeyValid(s) ==
  /\ Len(s) = 24
  /\ \A i \in 1..22 : s[i] \in AlphaSet
  /\ s[23] = PadChar /\ s[24] = PadChar
=============================================================================
