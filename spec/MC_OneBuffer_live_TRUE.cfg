CONSTANTS Gate = TRUE  NotifyReady = TRUE  NotifyUpdate = TRUE  WaitLoop = TRUE  ReadyTest = TRUE  Spurious = TRUE
SPECIFICATION FairSpec
PROPERTIES VisitEnds WorkerEnds WorkerHandsBack
CHECK_DEADLOCK FALSE
