----------------------------- MODULE MC_ModesToy -----------------------------
(***************************************************************************)
(* C10, design level: the five mode machines of Modes.tla over a toy block *)
(* cipher (4-bit blocks, non-involutive permutations).  TLC explores every *)
(* register value, block and mode and checks the inductive step            *)
(*   registers of encryptor and decryptor agree before a block             *)
(*     => the decryptor restores the block and the registers agree after,  *)
(* i.e. InverseOK holds for block sequences of every length, because Step  *)
(* has no length-dependent state.  Also: CTR never repeats a counter       *)
(* within one period, the keystream modes (CTR/OFB) are their own inverse, *)
(* and the 128-bit incrementing function carries through every byte.       *)
(***************************************************************************)
EXTENDS Naturals, Sequences, Bitwise, TLC
LOCAL MA == INSTANCE ModesAES

Blocks == 0..15
Keys == { [b \in Blocks |-> (5 * b + 3) % 16], [b \in Blocks |-> (7 * b + 1) % 16],
          [b \in Blocks |-> <<9, 4, 14, 1, 7, 12, 0, 11, 3, 15, 6, 13, 2, 10, 5, 8>>[b + 1]] }
TE(k, b) == k[b]
TD(k, c) == CHOOSE b \in Blocks : k[b] = c
INSTANCE Modes WITH E <- TE, D <- TD, BXor <- ^^, Inc <- LAMBDA c : (c + 1) % 16

VARIABLES mode, key, regE, regD, ok, ctrSeen
vars == <<mode, key, regE, regD, ok, ctrSeen>>
Init == /\ mode \in ModeIds /\ key \in Keys /\ regE \in Blocks /\ regD = regE /\ ok = TRUE
        /\ ctrSeen = {}
Next == \E b \in Blocks :
          LET e == EncStep(mode, key, regE, b)
              d == DecStep(mode, key, regD, e[1])
          IN /\ regE' = e[2] /\ regD' = d[2]
             /\ ok' = (d[1] = b)
             /\ ctrSeen' = IF mode = CTR /\ ctrSeen # Blocks THEN ctrSeen \cup {regE} ELSE ctrSeen
             /\ UNCHANGED <<mode, key>>
Spec == Init /\ [][Next]_vars

InverseOK == ok /\ regE = regD
\* a CTR stream never reuses a counter value before the whole counter space is exhausted
CtrFresh == (mode = CTR /\ ctrSeen # Blocks) => regE \notin ctrSeen
\* keystream modes: the decryptor is the encryptor
SelfInverse == \A k \in Keys, r \in Blocks, b \in Blocks :
                 /\ EncStep(CTR, k, r, b) = DecStep(CTR, k, r, b)
                 /\ EncStep(OFB, k, r, b) = DecStep(OFB, k, r, b)
ASSUME SelfInverse
\* ECB has no register, CBC/CFB registers are the last ciphertext block
RegisterShape == \A k \in Keys, r \in Blocks, b \in Blocks :
                 /\ EncStep(ECB, k, r, b)[2] = r
                 /\ EncStep(CBC, k, r, b)[2] = EncStep(CBC, k, r, b)[1]
                 /\ EncStep(CFB, k, r, b)[2] = EncStep(CFB, k, r, b)[1]
                 /\ DecStep(CBC, k, r, b)[2] = b /\ DecStep(CFB, k, r, b)[2] = b
ASSUME RegisterShape

\* SP 800-38A B.1 on 128 bits: carries through exactly k trailing 0xFF bytes, for every k
FFk(k) == [i \in 1..16 |-> IF i > 16 - k THEN 255 ELSE IF i = 16 - k THEN 7 ELSE 1]
IncCarries == \A k \in 0..15 : MA!Inc128(FFk(k)) = [i \in 1..16 |-> IF i > 16 - k THEN 0 ELSE IF i = 16 - k THEN 8 ELSE 1]
IncWraps == MA!Inc128([i \in 1..16 |-> 255]) = [i \in 1..16 |-> 0]
ASSUME IncCarries /\ IncWraps
=============================================================================
