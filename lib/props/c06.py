"""C06 - a wrong key is always rejected and yields no plaintext."""
import json
import wv
from props import filelevel as fl
PID = "C06"


def run(tier, replay):
    res = wv.Result(PID, "exploration", tier)
    if replay:
        events = json.load(open(replay))["replay"]["events"]
    else:
        nr = 16 if tier == "quick" else 400
        jobs = [["keys", T, n, (n + hm) % 5, hm, nr] for hm in (0, 1, 2) for (T, n) in (((1, 0), (2, 40), (4, 70)) if tier == "quick" else ((1, 0), (2, 40), (4, 70), (3, 100), (16, 33), (2, 16), (1, 150)))]
        jobs += [["keys", 2, 40, 1, hm, nr, "zk"] for hm in (0, 1, 2)] + [["keys", 1, 20, 3, 0, nr, "zk"]] + [["keys", 2, 30, 2, hm, nr, "z0"] for hm in ((1,) if tier == "quick" else (0, 1, 2))]      # z0: a file whose stored tag begins with 0x00
        jobs += [["keys", 1, 20, 1, 1, 4, "pc"]] if tier == "quick" else [["keys", 1, 20, 1, hm, 4, "pc"] for hm in (0, 1, 2)]      # wrong keys whose tag agrees with the stored one in two byte positions
        events = fl.collect(res, PID, jobs)
    st, nfull = fl.judge(res, PID, events, full_sample=40 if tier == "quick" else 400)
    ops = [e for e in events if e["e"] == "op"]
    keys = set((tuple(e["key"]), len(e["C"]), e["C"][9] if len(e["C"]) > 9 else -1) for e in ops if e["key"] != e["oKey"])
    res.cov.update({"evaluations": len(ops), "distinct_nontrivial": len(keys), "recomputed_with_real_hmac": nfull,
                    "rule": "for files of 3 (4) sizes x 3 hash modes (cipher mode rotated): all 128 single-bit neighbours of the key, keys differing only in byte 0 / byte 15, the all-zero key, seeded random keys, and the right key as control; execute_verify and execute_decrypt; TLC checks rejection, no output bytes, verify<=>decrypt. Distinct = distinct (wrong key, file).",
                    "traces_validated_against_impl": len(ops), "validator_states": st["states"], "exhaustive": False})
    for e in ops[:: max(1, len(ops) // 3)][:3]:
        res.sample(fl.describe(e))
    res.assumptions += ["ideal MAC: a different key never reproduces the stored tag (cross-checked on a sample with the executable HMAC)"]
    return res.finish()
