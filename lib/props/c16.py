"""C16 - Base64 is RFC 4648; the key validator accepts exactly 16-byte keys."""
import concurrent.futures as cf, json, os
import wv
PID = "C16"
CLASS_CHARS = {"a": "ABCDEFGHIJKLMNOPQRSTUVWXYZabcdefghijklmnopqrstuvwxyz0123456789", "+": "+", "/": "/", "=": "=",
               "x": "!-_ .,*$%@", "h": "\xc3\xa9\xff\x80"}


def gen_keys(res, path):
    """KeyStrings.tla enumerates the abstract candidates with the specification's verdict; instantiate them."""
    out = os.path.join(wv.RUN, PID, "keystrings.json")
    os.makedirs(os.path.dirname(out), exist_ok=True)
    r = wv.tlc("KeyStrings", env={"OUT": out}, workers=1, timeout=300)
    if not os.path.exists(out) or "VECTORS" not in r["out"]:
        raise wv.Infra("KeyStrings.tla did not produce vectors:\n" + r["out"][-2000:])
    vecs = json.load(open(out))
    rng = wv.rng("c16")
    with open(path, "wb") as f:
        for v in vecs:
            chars = []
            for i, c in enumerate(v["s"]):
                pool = CLASS_CHARS[c]
                ch = ord(rng.choice(pool))
                # character 22 of a 24-character key carries 4 padding bits: keep the generated
                # alphabet character canonical half of the time so that both kinds occur
                if c == "a" and i == 21 and rng.random() < 0.5:
                    ch = ord(rng.choice("AQgw"))
                chars.append(ch)
            f.write((" ".join([str(1 if v["valid"] else 0)] + [str(c) for c in chars]) + "\n").encode())
    res.cov["key_vectors_from_spec"] = len(vecs)
    return len(vecs)


def run(tier, replay):
    res = wv.Result(PID, "exploration", tier)
    wv.proofs(res, "Base64Proofs")
    exe = wv.build("h_b64", ["b64", "cli"], ["h_b64.cpp"])
    if replay:
        events = json.load(open(replay))["replay"]["events"]
    else:
        kp = os.path.join(wv.RUN, PID, "keys.txt")
        gen_keys(res, kp)
        events = wv.record(res, PID, [(exe, ["codec", 50 if tier == "quick" else 400, 0 if tier == "quick" else 1]), (exe, ["keys", kp])])
    bad, st = wv.validate_trace("Base64Trace", events, name=PID + "/tlc", shards=8)
    keys = set((e["e"], tuple(e.get("in", e.get("s", e.get("key", []))))) for e in events)
    acc = sum(1 for e in events if e["e"] == "valid" and e["res"] == 1)
    res.cov.update({"evaluations": len(events), "distinct_nontrivial": len(keys), "validator_accepts": acc,
                    "rule": "encoder: every length 0..50 (random, all-FF, zero) and the 3-byte group with each byte swept over its values at 00/FF/random neighbours, output buffer recorded whole with canary (terminating NUL position, no write beyond); decoder on all of those encodings; key validator + decoder on every candidate enumerated by spec/KeyStrings.tla (lengths {0,4,20,22,23,24,25,28} x 0..3 trailing '=' x one or two deviating characters from {+,/,=,non-alphabet,high-bit}) instantiated with seeded concrete characters; printkey output for 40 keys fed back through validator and decoder. TLC judges every event with spec/Base64.tla (non-canonical trailing bits in character 22: either verdict tolerated). Distinct = distinct (call, input).",
                    "traces_validated_against_impl": len(events), "validator_states": st["states"], "exhaustive": False})
    for e in events[5:: max(1, len(events) // 4)][:4]:
        res.sample(wv.shorten(e, 40))
    for e, why in bad:
        res.violation("%s: %s" % (e["e"], why[:300]), {"events": [e]})
    res.assumptions += ["byte-string contents sampled; lengths, group fields and key-string shapes enumerated", "TLC, Base64.tla (anchored by RFC 4648 section 10 vectors)"]
    return res.finish()
