// C10 driver: drives the ten (direction, mode) stream objects from AesFactory and records
// every runcry call of a stream as one event (inputs and outputs in call order).
#include "wv_json.h"
#include "multi_aes/aes/aesmode.h"

static std::string blocks_json(const std::vector<std::vector<u8_t>> &bs)
{
  std::string s = "[";
  for (size_t i = 0; i < bs.size(); ++i)
  {
    s += i ? ",[" : "[";
    for (int j = 0; j < 16; ++j)
      s += (j ? "," : "") + std::to_string((int)bs[i][j]);
    s += "]";
  }
  return s + "]";
}

static std::vector<std::vector<u8_t>> drive(bool enc, int mode, std::vector<u8_t> key, std::vector<u8_t> iv20, const std::vector<std::vector<u8_t>> &ins)
{
  // a stream object must be self-contained once it has been created: the factory that made it is re-assigned to another
  // key (and used), then destroyed, and the key / IV buffers it was given are overwritten - all before the first block
  Aesmode *m;
  {
    std::vector<u8_t> k2 = key, iv2 = iv20, dk(16, 0x3c), div(20, 0xc3);
    AesFactory *f = new AesFactory(k2.data());
    f->loadiv(iv2.data());
    m = f->createCryMaster(enc, mode);
    *f = AesFactory(dk.data(), div.data());
    Aesmode *decoy = f->createCryMaster(enc, mode);
    u8_t blk[16] = {1, 2, 3, 4, 5, 6, 7, 8, 9, 10, 11, 12, 13, 14, 15, 16};
    decoy->runcry(blk);
    delete decoy;
    delete f;
    std::fill(k2.begin(), k2.end(), 0xA5);
    std::fill(iv2.begin(), iv2.end(), 0x5A);
  }
  std::vector<std::vector<u8_t>> outs;
  for (auto b : ins)
  {
    m->runcry(b.data());
    outs.push_back(b);
  }
  delete m;
  return outs;
}

int main(int argc, char **argv)
{
  int maxlen = argc > 1 ? atoi(argv[1]) : 20;
  int longlen = argc > 2 ? atoi(argv[2]) : 0;
  Rng rng(wv_seed() * 15485863 + 10);
  long id = 0;
  // IV classes: random, zero, all-ff, 00..00 ff^k for k=1..16
  std::vector<std::pair<std::string, std::vector<u8_t>>> ivs;
  ivs.push_back({"random", rng.bytes(20)});
  ivs.push_back({"zero", std::vector<u8_t>(20, 0)});
  for (int k = 1; k <= 16; ++k)
  {
    std::vector<u8_t> v(20, 0);
    for (int j = 16 - k; j < 16; ++j)
      v[j] = 0xff;
    v[16] = 0x5a; // bytes 16..19 of the 20-byte IV field must not matter
    ivs.push_back({"ff" + std::to_string(k), v});
  }
  for (int mode = 0; mode < 5; ++mode)
    for (size_t c = 0; c < ivs.size(); ++c)
    {
      // sequence lengths rotate over 0..maxlen so that every (mode, length) and every (mode, iv class) occurs
      for (int rep = 0; rep < 2; ++rep)
      {
        int len = rep == 0 ? (int)((c * 7 + mode) % (maxlen + 1)) : (int)((c + 3 * mode) % 4);
        auto key = rng.bytes(16);
        std::vector<std::vector<u8_t>> ins;
        for (int i = 0; i < len; ++i)
          ins.push_back((i % 5 == 4) ? ins[i - 1] : rng.bytes(16)); // repeated blocks now and then
        auto outs = drive(true, mode, key, ivs[c].second, ins);
        Ev("stream").i("id", id++).i("enc", 1).i("mode", mode).str("ivcls", ivs[c].first).b("key", key).b("iv", ivs[c].second.data(), 16).raw("ins", blocks_json(ins)).raw("outs", blocks_json(outs)).raw("orig", "[]").emit();
        auto back = drive(false, mode, key, ivs[c].second, outs);
        Ev("stream").i("id", id++).i("enc", 0).i("mode", mode).str("ivcls", ivs[c].first).b("key", key).b("iv", ivs[c].second.data(), 16).raw("ins", blocks_json(outs)).raw("outs", blocks_json(back)).raw("orig", blocks_json(ins)).emit();
        // a decryptor on input that no encryptor produced
        if (rep == 0)
        {
          auto d = drive(false, mode, key, ivs[c].second, ins);
          Ev("stream").i("id", id++).i("enc", 0).i("mode", mode).str("ivcls", ivs[c].first).b("key", key).b("iv", ivs[c].second.data(), 16).raw("ins", blocks_json(ins)).raw("outs", blocks_json(d)).raw("orig", "[]").emit();
        }
      }
    }
  // every sequence length 0..maxlen for every mode (random IV)
  for (int mode = 0; mode < 5; ++mode)
    for (int len = 0; len <= maxlen; ++len)
    {
      auto key = rng.bytes(16), iv = rng.bytes(20);
      std::vector<std::vector<u8_t>> ins;
      for (int i = 0; i < len; ++i)
        ins.push_back(rng.bytes(16));
      auto outs = drive(true, mode, key, iv, ins);
      Ev("stream").i("id", id++).i("enc", 1).i("mode", mode).str("ivcls", "len").b("key", key).b("iv", iv.data(), 16).raw("ins", blocks_json(ins)).raw("outs", blocks_json(outs)).raw("orig", "[]").emit();
      auto back = drive(false, mode, key, iv, outs);
      Ev("stream").i("id", id++).i("enc", 0).i("mode", mode).str("ivcls", "len").b("key", key).b("iv", iv.data(), 16).raw("ins", blocks_json(outs)).raw("outs", blocks_json(back)).raw("orig", blocks_json(ins)).emit();
    }
  // structured blocks: what a memo, a "nothing to do" shortcut or an aliasing assumption keys on - an all-zero / all-FF
  // block first, in the middle and last, a block equal to the IV, equal to the key, equal to its predecessor's OUTPUT
  for (int mode = 0; mode < 5; ++mode)
    for (int pat = 0; pat < 6; ++pat)
    {
      auto key = pat == 5 ? std::vector<u8_t>(16, 0) : rng.bytes(16);
      auto iv = rng.bytes(20);
      std::vector<u8_t> Z(16, 0), F(16, 0xff), I(iv.begin(), iv.begin() + 16);
      std::vector<std::vector<u8_t>> ins;
      switch (pat)
      {
      case 0: ins = {Z, rng.bytes(16), Z, Z, rng.bytes(16), Z}; break;
      case 1: ins = {F, Z, F, F}; break;
      case 2: ins = {I, key, I, rng.bytes(16), key}; break;
      case 3: ins = {rng.bytes(16), Z, Z, Z}; break;
      case 4: ins = {Z}; break;
      case 5: ins = {Z, Z, F}; break;      // all-zero key as well
      }
      auto outs = drive(true, mode, key, iv, ins);
      Ev("stream").i("id", id++).i("enc", 1).i("mode", mode).str("ivcls", "structured").b("key", key).b("iv", iv.data(), 16).raw("ins", blocks_json(ins)).raw("outs", blocks_json(outs)).raw("orig", "[]").emit();
      auto back = drive(false, mode, key, iv, outs);
      Ev("stream").i("id", id++).i("enc", 0).i("mode", mode).str("ivcls", "structured").b("key", key).b("iv", iv.data(), 16).raw("ins", blocks_json(outs)).raw("outs", blocks_json(back)).raw("orig", blocks_json(ins)).emit();
      // the decryptor fed the structured blocks directly (no encryptor produced them)
      auto d = drive(false, mode, key, iv, ins);
      Ev("stream").i("id", id++).i("enc", 0).i("mode", mode).str("ivcls", "structured").b("key", key).b("iv", iv.data(), 16).raw("ins", blocks_json(ins)).raw("outs", blocks_json(d)).raw("orig", "[]").emit();
      // feed the encryptor its own previous output (chaining shortcuts)
      if (outs.size() >= 2)
      {
        std::vector<std::vector<u8_t>> again = {outs[0], outs[0], outs[1]};
        auto o2 = drive(true, mode, key, iv, again);
        Ev("stream").i("id", id++).i("enc", 1).i("mode", mode).str("ivcls", "structured").b("key", key).b("iv", iv.data(), 16).raw("ins", blocks_json(again)).raw("outs", blocks_json(o2)).raw("orig", "[]").emit();
      }
    }
  // long sequences crossing one- and two-byte counter carries from a ..fe ff start
  for (int mode = 0; mode < 5 && longlen > 0; ++mode)
  {
    auto key = rng.bytes(16);
    std::vector<u8_t> iv(20, 0x11);
    iv[13] = 0xff, iv[14] = 0xfe, iv[15] = 0xff;
    std::vector<std::vector<u8_t>> ins;
    for (int i = 0; i < longlen; ++i)
      ins.push_back(rng.bytes(16));
    auto outs = drive(true, mode, key, iv, ins);
    Ev("stream").i("id", id++).i("enc", 1).i("mode", mode).str("ivcls", "long").b("key", key).b("iv", iv.data(), 16).raw("ins", blocks_json(ins)).raw("outs", blocks_json(outs)).raw("orig", "[]").emit();
    auto back = drive(false, mode, key, iv, outs);
    Ev("stream").i("id", id++).i("enc", 0).i("mode", mode).str("ivcls", "long").b("key", key).b("iv", iv.data(), 16).raw("ins", blocks_json(outs)).raw("outs", blocks_json(back)).raw("orig", blocks_json(ins)).emit();
  }
  return 0;
}
