---- MODULE History_TTrace_1790453872 ----
EXTENDS Sequences, TLCExt, Toolbox, Naturals, TLC, History

_expression ==
    LET History_TEExpression == INSTANCE History_TEExpression
    IN History_TEExpression!expression
----

_trace ==
    LET History_TETrace == INSTANCE History_TETrace
    IN History_TETrace!trace
----

_inv ==
    ~(
        TLCGet("level") = Len(_TETrace)
        /\
        cluster = (0)
        /\
        hist = (<<1, 12, 10>>)
        /\
        inst = ("none")
        /\
        lastOK = (FALSE)
        /\
        live = (0)
    )
----

_init ==
    /\ live = _TETrace[1].live
    /\ lastOK = _TETrace[1].lastOK
    /\ cluster = _TETrace[1].cluster
    /\ hist = _TETrace[1].hist
    /\ inst = _TETrace[1].inst
----

_next ==
    /\ \E i,j \in DOMAIN _TETrace:
        /\ \/ /\ j = i + 1
              /\ i = TLCGet("level")
        /\ live  = _TETrace[i].live
        /\ live' = _TETrace[j].live
        /\ lastOK  = _TETrace[i].lastOK
        /\ lastOK' = _TETrace[j].lastOK
        /\ cluster  = _TETrace[i].cluster
        /\ cluster' = _TETrace[j].cluster
        /\ hist  = _TETrace[i].hist
        /\ hist' = _TETrace[j].hist
        /\ inst  = _TETrace[i].inst
        /\ inst' = _TETrace[j].inst

\* Uncomment the ASSUME below to write the states of the error trace
\* to the given file in Json format. Note that you can pass any tuple
\* to `JsonSerialize`. For example, a sub-sequence of _TETrace.
    \* ASSUME
    \*     LET J == INSTANCE Json
    \*         IN J!JsonSerialize("History_TTrace_1790453872.json", _TETrace)

=============================================================================

 Note that you can extract this module `History_TEExpression`
  to a dedicated file to reuse `expression` (the module in the 
  dedicated `History_TEExpression.tla` file takes precedence 
  over the module `History_TEExpression` below).

---- MODULE History_TEExpression ----
EXTENDS Sequences, TLCExt, Toolbox, Naturals, TLC, History

expression == 
    [
        \* To hide variables of the `History` spec from the error trace,
        \* remove the variables below.  The trace will be written in the order
        \* of the fields of this record.
        live |-> live
        ,lastOK |-> lastOK
        ,cluster |-> cluster
        ,hist |-> hist
        ,inst |-> inst
        
        \* Put additional constant-, state-, and action-level expressions here:
        \* ,_stateNumber |-> _TEPosition
        \* ,_liveUnchanged |-> live = live'
        
        \* Format the `live` variable as Json value.
        \* ,_liveJson |->
        \*     LET J == INSTANCE Json
        \*     IN J!ToJson(live)
        
        \* Lastly, you may build expressions over arbitrary sets of states by
        \* leveraging the _TETrace operator.  For example, this is how to
        \* count the number of times a spec variable changed up to the current
        \* state in the trace.
        \* ,_liveModCount |->
        \*     LET F[s \in DOMAIN _TETrace] ==
        \*         IF s = 1 THEN 0
        \*         ELSE IF _TETrace[s].live # _TETrace[s-1].live
        \*             THEN 1 + F[s-1] ELSE F[s-1]
        \*     IN F[_TEPosition - 1]
    ]

=============================================================================



Parsing and semantic processing can take forever if the trace below is long.
 In this case, it is advised to uncomment the module below to deserialize the
 trace from a generated binary file.

\*
\*---- MODULE History_TETrace ----
\*EXTENDS IOUtils, TLC, History
\*
\*trace == IODeserialize("History_TTrace_1790453872.bin", TRUE)
\*
\*=============================================================================
\*

---- MODULE History_TETrace ----
EXTENDS TLC, History

trace == 
    <<
    ([cluster |-> 0,hist |-> <<>>,inst |-> "none",lastOK |-> TRUE,live |-> 0]),
    ([cluster |-> 0,hist |-> <<1>>,inst |-> "none",lastOK |-> TRUE,live |-> 0]),
    ([cluster |-> 2,hist |-> <<1, 12>>,inst |-> "none",lastOK |-> TRUE,live |-> 0]),
    ([cluster |-> 0,hist |-> <<1, 12, 10>>,inst |-> "none",lastOK |-> FALSE,live |-> 0])
    >>
----


=============================================================================

---- CONFIG History_TTrace_1790453872 ----
CONSTANTS
    MaxLen = 4
    DelOnAllPaths = TRUE
    LiveDecOnInv = TRUE
    FullGetoptReset = FALSE

INVARIANT
    _inv

CHECK_DEADLOCK
    \* CHECK_DEADLOCK off because of PROPERTY or INVARIANT above.
    FALSE

INIT
    _init

NEXT
    _next

CONSTANT
    _TETrace <- _trace

ALIAS
    _expression
=============================================================================
\* Generated on Sat Sep 26 20:17:52 UTC 2026