CONSTANTS T = 2  N = 64  S = 32  Dir = "dec"  EofPeek = FALSE  Pad = 5
  Gate = TRUE  NotifyReady = TRUE  NotifyUpdate = TRUE  WaitLoop = TRUE  ReadyTest = TRUE  Spurious = FALSE  Unbounded = FALSE
  Loads <- MCLoads  DecPad <- MCDecPad
SPECIFICATION Spec
INVARIANTS TypeOK Exclusive NoUnderflow InOrder OutPrefix OutExact Quiescent LockDiscipline

