---------------------------- MODULE Base64Proofs ----------------------------
(***************************************************************************)
(* TLAPS proofs of the length arithmetic behind C16 for every input        *)
(* length: encoded length, number of '=' and why exactly the 24-character  *)
(* strings with TWO trailing '=' are the encodings of 16-byte values (the  *)
(* validator defect D6 accepted zero or one '=', i.e. 18 or 17 bytes).     *)
(* Definitions restated from Base64.tla (EncodedLen, DecodedLen).          *)
(***************************************************************************)
EXTENDS Naturals, Integers, TLAPS
EncodedLen(n) == 4 * ((n + 2) \div 3)
Pads(n) == (3 - (n % 3)) % 3
DecodedLen(len, pads) == 3 * (len \div 4) - pads

THEOREM EncodedIsGroups == \A n \in Nat : EncodedLen(n) % 4 = 0
  BY DEF EncodedLen
THEOREM PadsRange == \A n \in Nat : Pads(n) \in 0..2
  BY DEF Pads
THEOREM SixteenBytes == EncodedLen(16) = 24 /\ Pads(16) = 2
  BY DEF EncodedLen, Pads
THEOREM KeyStringShape == \A p \in 0..2 : DecodedLen(24, p) = 16 <=> p = 2
  BY DEF DecodedLen
THEOREM OnlyLength24 == \A len \in Nat, p \in 0..2 : len % 4 = 0 /\ DecodedLen(len, p) = 16 => len = 24 /\ p = 2
  BY DEF DecodedLen
=============================================================================
