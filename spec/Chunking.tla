------------------------------ MODULE Chunking ------------------------------
(***************************************************************************)
(* Chunking = ChunkingBase (the per-load definitions, about which          *)
(* ChunkingProofs.tla proves theorems for every length and chunk size)     *)
(* plus the whole load sequences of an input, defined recursively.         *)
(***************************************************************************)
EXTENDS ChunkingBase

\* sequence of loads up to and including the FINAL one
RECURSIVE EncLoadsFrom(_, _, _)
EncLoadsFrom(n, pos, S) ==
  LET l == EncLoad(n, pos, S)
  IN IF l[1] = FINAL THEN << l >> ELSE << l >> \o EncLoadsFrom(n, pos + S, S)
EncLoads(n, S) == EncLoadsFrom(n, 0, S)

RECURSIVE DecLoadsFrom(_, _, _, _)
DecLoadsFrom(m, pos, S, EofPeek) ==
  LET l == DecLoad(m, pos, S, EofPeek)
  IN IF l[1] # FULL THEN << l >> ELSE << l >> \o DecLoadsFrom(m, pos + S, S, EofPeek)
DecLoads(m, S, EofPeek) == DecLoadsFrom(m, 0, S, EofPeek)

=============================================================================
