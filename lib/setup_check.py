"""./check setup: offline self-check of the framework after a fresh restore.
SANY-parses every module, evaluates the KAT ASSUMEs of the executable specifications."""
import concurrent.futures as cf, glob, os, subprocess, sys
import wv


def main():
    os.makedirs(wv.CACHE, exist_ok=True)
    os.makedirs(wv.RUN, exist_ok=True)
    mods = ["Kat", "MDProofsLink"]
    bad = 0
    for m in mods:
        r = wv.tlc(m, workers=1, timeout=600)
        if r["rc"] != 0 or "No error has been found" not in r["out"]:
            print(r["out"][-3000:]); print("ERROR setup: %s failed" % m); bad += 1
    for pm in ("ChunkingProofs", "MDProofs", "Base64Proofs"):
        try:
            n, ok = wv.tlapm(pm)
            if n != ok:
                print("ERROR setup: TLAPS proved only %d of %d obligations of %s" % (ok, n, pm)); bad += 1
        except wv.Infra as e:
            print("ERROR setup: %s" % str(e)[:1500]); bad += 1
    print("setup: %s" % ("ok" if not bad else "FAILED"))
    return 2 if bad else 0
