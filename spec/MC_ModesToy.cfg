SPECIFICATION Spec
INVARIANTS InverseOK CtrFresh
CHECK_DEADLOCK FALSE
