------------------------------ MODULE RoundTrip ------------------------------
(***************************************************************************)
(* C01, design level: the chunked encrypt path followed by the chunked     *)
(* decrypt path (both defined through Chunking, not as inverses of one     *)
(* another) reproduces the plaintext for every length relative to the      *)
(* block and chunk size and every stream count.  Symbolic bytes and an     *)
(* ideal cipher: enciphering block x as the q-th block of stream s gives   *)
(* the token <<"E", s, q, x>>, which only the same (s, q) deciphers.       *)
(*                                                                         *)
(* One behaviour per configuration: Init chooses (n, S, T), Encrypt and    *)
(* Decrypt are one step each; "hang" is the outcome in which the decrypt   *)
(* side is handed a FINAL load without blocks (the worker leaves, the I/O  *)
(* thread waits for ever - the deadlock of the pinned tree, D1).           *)
(***************************************************************************)
EXTENDS Naturals, Sequences, SequencesExt, TLC
CONSTANTS Sizes,        \* chunk sizes S (bytes)
          Threads,      \* stream counts T
          EofPeek       \* TRUE = repaired tree
LOCAL Ck == INSTANCE Chunking

VARIABLES n, S, T, phase, cipher, result
vars == <<n, S, T, phase, cipher, result>>

PadByte(k) == 1000 + k                 \* symbolic pad byte of value k
Plain(len) == [i \in 1..len |-> i]     \* symbolic data bytes 1..n
Padded(len) == Plain(len) \o [i \in 1..Ck!PadLen(len) |-> PadByte(Ck!PadLen(len))]
BlocksOf(bytes) == [b \in 1..(Len(bytes) \div 16) |-> SubSeq(bytes, 16 * (b - 1) + 1, 16 * b)]

\* per-stream sequence numbers: block b (0-based) is the SeqNo(b)-th block of its stream
StreamOf(b0, s, t) == Ck!Owner(Ck!ChunkOfBlock(b0, s), t)
SeqNo(b0, s, t) == LET per == s \div 16  c == b0 \div per
                   IN ((c \div t) * per) + (b0 % per)

\* ---- encrypt: loads as Chunking prescribes, every loaded block enciphered by its owner ----
EncBlocks(len, s, t) ==
  LET loads == Ck!EncLoads(len, s)
      nblk == FoldLeft(LAMBDA a, ld : a + ld[3], 0, loads)
      pb == BlocksOf(Padded(len))
  IN IF nblk # Len(pb) THEN <<>>
     ELSE [b \in 1..nblk |-> << "E", StreamOf(b - 1, s, t), SeqNo(b - 1, s, t), pb[b] >>]

\* ---- decrypt: loads by EOF detection, strip by the last byte of the final buffer ----
Dec(tok, st, q) == IF tok[1] = "E" /\ tok[2] = st /\ tok[3] = q THEN tok[4] ELSE [i \in 1..16 |-> 0]
DecBytes(cblocks, s, t) ==
  LET m == 16 * Len(cblocks)
      loads == Ck!DecLoads(m, s, EofPeek)
      last == loads[Len(loads)]
      plainblocks == [b \in 1..Len(cblocks) |-> Dec(cblocks[b], StreamOf(b - 1, s, t), SeqNo(b - 1, s, t))]
      flat == FoldLeft(LAMBDA a, x : a \o x, <<>>, plainblocks)
  IN IF last[1] = "FINAL" /\ last[3] = 0 THEN [status |-> "hang", bytes |-> <<>>]   \* FINAL buffer without blocks
     ELSE IF last[1] # "FINAL" THEN [status |-> "no-final", bytes |-> <<>>]
     ELSE LET p == flat[Len(flat)] IN
          IF p < 1001 \/ p > 1016 THEN [status |-> "bad-pad", bytes |-> flat]
          ELSE [status |-> "ok", bytes |-> SubSeq(flat, 1, Len(flat) - (p - 1000))]

Init == /\ S \in Sizes /\ T \in Threads /\ n \in 0..(4 * S + 17)
        /\ phase = "start" /\ cipher = <<>> /\ result = [status |-> "none", bytes |-> <<>>]
Encrypt == /\ phase = "start" /\ cipher' = EncBlocks(n, S, T) /\ phase' = "encrypted"
           /\ UNCHANGED <<n, S, T, result>>
Decrypt == /\ phase = "encrypted" /\ result' = DecBytes(cipher, S, T) /\ phase' = "done"
           /\ UNCHANGED <<n, S, T, cipher>>
Next == Encrypt \/ Decrypt
Spec == Init /\ [][Next]_vars

\* ---- properties -----------------------------------------------------------
CipherLenOK == phase # "start" => 16 * Len(cipher) = 16 * ((n \div 16) + 1)
RoundTripOK == phase = "done" => result = [status |-> "ok", bytes |-> Plain(n)]
NoHang == phase = "done" => result.status # "hang"
\* the export sizes of the encrypt side add up to the padded length
ExportLenOK == LET loads == Ck!EncLoads(n, S)
               IN FoldLeft(LAMBDA a, ld : a + Ck!ExportLen(ld, S, 0), 0, loads) = Ck!PaddedLen(n)
=============================================================================
