"""C14 - see pipe.py"""
from props import pipe


def run(tier, replay):
    return pipe.run("C14", tier, replay)
