CONSTANTS Gate = TRUE  NotifyReady = TRUE  NotifyUpdate = TRUE  WaitLoop = TRUE  ReadyTest = TRUE  Spurious = FALSE
SPECIFICATION FairSpec
PROPERTIES VisitEnds WorkerEnds WorkerHandsBack
CHECK_DEADLOCK FALSE
