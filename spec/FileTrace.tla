------------------------------ MODULE FileTrace ------------------------------
(***************************************************************************)
(* C05, C06, C11, C12, C13: recorded outcomes of the real execute_verify / *)
(* execute_decrypt on tampered files, wrong keys, arbitrary byte strings   *)
(* and crash states, judged against the specification.                     *)
(*                                                                         *)
(* Acceptance oracle.  Under the standard assumption on HMAC (no           *)
(* collisions / forgeries on the explored inputs, module CryptoIdeal) a    *)
(* file derived from an authentic file oC (made with key oKey) verifies    *)
(* under key k iff  k = oKey, the framing checks pass, the hash-mode byte, *)
(* the first hlen tag bytes and everything from offset 48 on are those of  *)
(* oC ("IdealAccept").  A byte string not derived from an authentic file   *)
(* never verifies.  With FULL = "1" the verdict is additionally recomputed *)
(* with the real HMAC (FileFormat!Verify), which cross-checks the          *)
(* idealisation on concrete bytes.                                         *)
(***************************************************************************)
EXTENDS Naturals, Sequences, TLC, Json, IOUtils, Bytes
LOCAL F == INSTANCE FileFormat
LOCAL H == INSTANCE HMAC
Events == ndJsonDeserialize(IOEnv.TRACE)
Full == IOEnv.FULL = "1"
VARIABLES l, nbad

Framing(C) == /\ Len(C) >= 74 /\ Take(C, 8) = F!Magic /\ C[9] <= 4 /\ C[10] <= 2
IdealAccept(ev) ==
  /\ ev.has_orig = 1 /\ ev.key = ev.oKey /\ Framing(ev.C)
  /\ ev.C[10] = ev.oC[10]
  /\ Slice(ev.C, 10, H!HLen(ev.C[10])) = Slice(ev.oC, 10, H!HLen(ev.oC[10]))
  /\ Drop(ev.C, 48) = Drop(ev.oC, 48)
\* what an accepted file must decrypt to: the original plaintext (the cipher-mode byte is part of
\* what was encrypted; if it differs the plaintext cannot be the original one)
WriteOrderWhy(ev) ==
  LET w == ev.writes  n == Len(w)  hl == H!HLen(ev.hm)  flen == Len(ev.final) IN
  IF ev.ret # 1 THEN <<"encryption reported failure">>
  ELSE IF n < 2 THEN <<"fewer than two writes reached the output">>
  ELSE IF w[n].off # 10 \/ w[n].len # hl THEN <<"the last write is not the tag (hlen bytes at offset 10)", w[n].off, w[n].len>>
  ELSE IF w[1].off # 0 THEN <<"first write not at offset 0">>
  ELSE IF \E i \in 1..(n - 2) : w[i + 1].off # w[i].off + w[i].len THEN <<"writes before the tag are not strictly sequential">>
  ELSE IF w[n - 1].off + w[n - 1].len # flen THEN <<"the sequential writes do not end at the end of the file">>
  ELSE <<"ok">>

Why(ev) ==
  IF ev.e = "end" THEN <<"ok">>
  ELSE IF ev.e = "writelog" THEN WriteOrderWhy(ev)
  ELSE IF ev.e # "op" THEN <<"unknown event">>
  ELSE IF ev.how # "ok" THEN <<"operation did not return normally", ev.how, ev.detail>>
  ELSE IF ev.ver_intact # 1 \/ ev.dec_intact # 1 THEN <<"an operation modified its input file">>
  ELSE IF ev.ver_outlen # 0 THEN <<"verification wrote output">>
  ELSE IF ev.ver_ret # ev.dec_ret THEN <<"verification and decryption disagree", ev.ver_ret, ev.dec_ret>>
  ELSE IF ev.decp_ret # ev.dec_ret \/ ev.decp_same # 1 THEN <<"decryption into a non-seekable output (pipe) differs from decryption into a file: verdict / length", ev.decp_ret, ev.decp_len, "instead of", ev.dec_ret, Len(ev.D)>>
  ELSE IF ev.dec_ret = 0 /\ ev.D # <<>> THEN <<"a failing decryption wrote output bytes", Len(ev.D)>>
  ELSE IF ev.cls = "retag" THEN <<"ok">>      \* re-tagged with the key: outside the authenticity oracle; only the verify<=>decrypt, output and input conditions above apply
  ELSE IF ev.dec_ret = 1 /\ ~IdealAccept(ev) THEN <<"accepted although not authentic (or wrong key)">>
  ELSE IF ev.dec_ret = 1 /\ ev.D # ev.oP THEN <<"accepted, but the delivered plaintext differs from what was encrypted", Len(ev.D), Len(ev.oP)>>
  ELSE IF ev.dec_ret = 1 /\ Len(ev.D) > Len(ev.C) - F!TextMark(ev.T) THEN <<"more plaintext than the body holds">>
  ELSE IF ev.dec_ret = 0 /\ ev.has_orig = 1 /\ ev.C = ev.oC /\ ev.key = ev.oKey THEN <<"the authentic, completely written file was rejected">>
  ELSE IF Full /\ ((F!Verify(ev.C, ev.key, ev.T) = 0) # (ev.ver_ret = 1)) THEN <<"verdict differs from the executable specification of verify", F!Verify(ev.C, ev.key, ev.T)>>
  ELSE <<"ok">>

Init == l = 1 /\ nbad = 0
Next == /\ l <= Len(Events)
        /\ LET ev == Events[l]  w == Why(ev)
           IN /\ IF w = <<"ok">> THEN TRUE ELSE PrintT(<<"BAD", l, ev.id, w>>)
              /\ nbad' = nbad + (IF w = <<"ok">> THEN 0 ELSE 1)
        /\ l' = l + 1
Finished == (l = Len(Events) + 1) => PrintT(<<"DONE", Len(Events), nbad>>)
Spec == Init /\ [][Next]_<<l, nbad>>
=============================================================================
