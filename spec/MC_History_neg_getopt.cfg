CONSTANTS MaxLen = 4  DelOnAllPaths = TRUE  LiveDecOnInv = TRUE  FullGetoptReset = FALSE
SPECIFICATION Spec
INVARIANTS Quiescent HistoryFree
CHECK_DEADLOCK FALSE
