CONSTANT MaxRetry = 1
