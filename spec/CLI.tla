--------------------------------- MODULE CLI ---------------------------------
(***************************************************************************)
(* C17: the option-driven command line of wencry as a state machine over   *)
(* token classes, and the outcome class of a whole argument vector:        *)
(*   "OK"   the requested operation must succeed: exit 0 and its effect    *)
(*   "FAIL" it must fail cleanly: non-zero exit and a diagnostic           *)
(*   "MAY"  the property leaves the verdict open (either, but cleanly)     *)
(* A crash (signal) is a violation in every class.                         *)
(*                                                                         *)
(* Tokens (each expands to one or two argv strings in the driver):         *)
(*  modes  e d v V h  le ld lv (long forms)  en dn vn (clustered with -n) n*)
(*         leAbbr (--enc: getopt_long accepts unambiguous abbreviations)   *)
(*  input  iF plaintext file  iE valid .wenc made with key K  iMissing     *)
(*         iLong existing 190-character path  iNoArg (-i without argument) *)
(*         iProc readable file in a directory that cannot take new files   *)
(*         iLen122 / iLen123 existing paths of exactly 122 / 123 characters*)
(*         iBadC / iBadH the valid file with cipher-mode byte 5 / hash-mode *)
(*         byte 3 (first values out of range)  iTam the valid file with its *)
(*         last byte changed  iEmpty an empty file  (all four: readable     *)
(*         files that are fine as plaintext and not authentic as .wenc)     *)
(*  output oO creatable path  oBad path in a directory that does not exist *)
(*         oLong a 300-character file name (no file system takes it)       *)
(*         oFull a path that opens but cannot take a byte (/dev/full: the  *)
(*         disk-full case) - encrypt and decrypt must fail, verify writes  *)
(*         nothing and is unaffected                                       *)
(*  key    kK right key  kW well-formed wrong key  kShort(23) kBadChar     *)
(*         kNoPad(24, no '=') kOnePad(24, one '=') kLong(28)               *)
(*         kHigh (24 characters, one with the high bit set)  kMidPad (24   *)
(*         characters ending in ==, with a further = in the middle)        *)
(*         kPadChar (22 digits, then = and a digit)                        *)
(*  modes  c0 c2 c4 (valid, incl. both ends of the range)  c5 c100 c256    *)
(*         c260 cNeg (-1)  cabc cEmpty (not numbers)   h0 h1 h2  h3 h256   *)
(*         hNeg   cHuge hHuge (a number that does not fit an int)          *)
(*         cWrapNeg (-(2^64)+1) c2p32p1 (2^32+1) c2p64p1 (2^64+1): numbers *)
(*         that wrap to a valid mode in an unsigned / narrower parse       *)
(*  empty  iEmptyArg oEmptyArg kEmpty: the option with "" as its value     *)
(*  other  x unknown option   stray positional argument                    *)
(***************************************************************************)
EXTENDS Naturals, Sequences, FiniteSets

ModeTok == {"e", "d", "v", "V", "h", "le", "ld", "lv", "en", "dn", "vn", "leAbbr"}
ModeOf(t) == CASE t \in {"e", "le", "en", "leAbbr"} -> "e" [] t \in {"d", "ld", "dn"} -> "d" [] t \in {"v", "lv", "vn"} -> "v"
               [] t = "V" -> "V" [] t = "h" -> "h"
Tokens == ModeTok \cup {"n", "iF", "iE", "iMissing", "iLong", "iLen122", "iLen123", "iProc", "iNoArg", "iBadC", "iBadH", "iTam", "iEmpty", "oO", "oBad", "kK", "kW", "kShort", "kBadChar",
                        "kNoPad", "kOnePad", "kLong", "kHigh", "kMidPad", "kPadChar", "kEmpty", "c0", "c2", "c4", "c5", "c100", "c256", "c260", "cNeg", "cHuge", "cabc", "cEmpty",
                        "h0", "h1", "h2", "h3", "h256", "hNeg", "hHuge", "iEmptyArg", "oEmptyArg", "oFull", "oLong", "kAbbr", "cAbbr", "cWrapNeg", "c2p32p1", "c2p64p1", "x", "stray"}
S0 == [mode |-> "u", ct |-> FALSE, ht |-> FALSE, in |-> "none", out |-> "none", key |-> "none", quiet |-> FALSE, err |-> FALSE, may |-> FALSE]

\* one token; the first offending token ends the parse (err)
Step(s, t) ==
  IF s.err THEN s
  ELSE IF t \in ModeTok THEN (IF s.mode # "u" THEN [s EXCEPT !.err = TRUE]
                              ELSE [s EXCEPT !.mode = ModeOf(t), !.quiet = s.quiet \/ t \in {"en", "dn", "vn"}])
  ELSE IF t = "n" THEN [s EXCEPT !.quiet = TRUE]
  ELSE IF t = "iF" THEN [s EXCEPT !.in = "F"]
  ELSE IF t = "iE" THEN [s EXCEPT !.in = "E"]
  ELSE IF t \in {"iLong", "iLen123"} THEN [s EXCEPT !.in = "L"]      \* 123 + ".wenc" + NUL does not fit 128 bytes
  ELSE IF t = "iLen122" THEN [s EXCEPT !.in = "F"]                      \* the longest path whose default output name fits
  ELSE IF t = "iProc" THEN [s EXCEPT !.in = "R"]
  ELSE IF t \in {"iBadC", "iBadH", "iTam", "iEmpty"} THEN [s EXCEPT !.in = "X"]
  ELSE IF t \in {"iMissing", "iNoArg", "iEmptyArg", "oBad", "oEmptyArg", "oLong", "kShort", "kBadChar", "kNoPad", "kOnePad", "kLong", "kHigh", "kMidPad", "kPadChar", "kEmpty",
                  "c5", "c100", "c256", "c260", "cNeg", "cHuge", "cWrapNeg", "c2p32p1", "c2p64p1", "h3", "h256", "hNeg", "hHuge", "x"}
       THEN [s EXCEPT !.err = TRUE]
  ELSE IF t = "oO" THEN [s EXCEPT !.out = "O"]
  ELSE IF t = "oFull" THEN [s EXCEPT !.out = "U"]
  ELSE IF t \in {"kK", "kAbbr"} THEN [s EXCEPT !.key = "K"]
  ELSE IF t = "kW" THEN [s EXCEPT !.key = "W"]
  ELSE IF t \in {"c0", "c2", "c4", "cAbbr"} THEN (IF s.ct THEN [s EXCEPT !.err = TRUE] ELSE [s EXCEPT !.ct = TRUE])
  ELSE IF t \in {"cabc", "cEmpty"} THEN (IF s.ct THEN [s EXCEPT !.err = TRUE] ELSE [s EXCEPT !.ct = TRUE, !.may = TRUE])   \* not a number
  ELSE IF t \in {"h0", "h1", "h2"} THEN (IF s.ht THEN [s EXCEPT !.err = TRUE] ELSE [s EXCEPT !.ht = TRUE])
  ELSE IF t = "stray" THEN [s EXCEPT !.may = TRUE]
  ELSE [s EXCEPT !.err = TRUE]

RECURSIVE ParseFrom(_, _)
ParseFrom(s, ts) == IF ts = <<>> THEN s ELSE ParseFrom(Step(s, Head(ts)), Tail(ts))
Parse(ts) == ParseFrom(S0, ts)

\* -i without argument swallows the following token as its argument; when it is the last token
\* getopt itself reports the error.  Either way the vector is rejected, but what follows iNoArg
\* is never parsed as an option: vectors are normalised by cutting after iNoArg.
Cut(ts) == IF \E i \in 1..Len(ts) : ts[i] = "iNoArg"
           THEN SubSeq(ts, 1, CHOOSE i \in 1..Len(ts) : ts[i] = "iNoArg" /\ \A j \in 1..(i - 1) : ts[j] # "iNoArg")
           ELSE ts

Class(ts0) ==
  LET ts == Cut(ts0)  s == Parse(ts) IN
  IF s.err THEN "FAIL"
  ELSE IF s.mode = "u" THEN "FAIL"
  ELSE IF s.mode \in {"V", "h"} THEN (IF s.may THEN "MAY" ELSE "OK")
  ELSE IF s.mode = "e" THEN
         (IF s.in = "none" THEN "FAIL"
          ELSE IF s.out = "U" THEN "FAIL"                        \* nothing can be written: the encryption did not succeed
          ELSE IF s.out = "none" /\ s.in = "L" THEN "MAY"        \* default output name may not fit a long path
          ELSE IF s.out = "none" /\ s.in = "R" THEN "FAIL"       \* default output cannot be created next to the input
          ELSE IF s.may THEN "MAY" ELSE "OK")
  ELSE IF s.mode = "d" THEN
         (IF s.in = "none" \/ s.key = "none" \/ s.out = "none" \/ s.out = "U" THEN "FAIL"
          ELSE IF s.in = "E" /\ s.key = "K" THEN (IF s.may THEN "MAY" ELSE "OK") ELSE "FAIL")
  ELSE (IF s.in = "none" \/ s.key = "none" THEN "FAIL"
        ELSE IF s.in = "E" /\ s.key = "K" THEN (IF s.may THEN "MAY" ELSE "OK") ELSE "FAIL")
Quiet(ts) == Parse(Cut(ts)).quiet
ModeFinal(ts) == Parse(Cut(ts)).mode

\* ---- design-level sanity, checked by TLC over all vectors up to length 3 -----------------
Seqs(n) == UNION { [1..k -> Tokens] : k \in 0..n }
\* no mode or two modes never succeeds; decrypt/verify never succeed without a key
NoModeFails == \A ts \in Seqs(2) : (\A i \in 1..Len(ts) : ts[i] \notin ModeTok) => Class(ts) = "FAIL"
TwoModesFail == \A a, b \in ModeTok : Class(<<a, b>>) = "FAIL" /\ Class(<<a, "iF", b>>) = "FAIL"
NeedKey == \A ts \in Seqs(3) : (ModeFinal(ts) \in {"d", "v"} /\ \A i \in 1..Len(ts) : ts[i] \notin {"kK", "kW", "kAbbr"}) => Class(ts) = "FAIL"
BadValueFails == \A bad \in {"kShort", "kBadChar", "kNoPad", "kOnePad", "kLong", "kMidPad", "c5", "c256", "cNeg", "h3", "h256", "hNeg", "x", "oBad", "iMissing", "kEmpty", "iEmptyArg", "oEmptyArg"} :
                   \A ts \in Seqs(2) : Class(ts \o <<bad>>) = "FAIL"
=============================================================================
