------------------------------ MODULE ModesAES ------------------------------
(* Modes instantiated with AES-128 over 16-byte blocks; k is an expanded key. *)
EXTENDS Bytes
LOCAL A == INSTANCE AES128
\* SP 800-38A B.1 standard incrementing function with m = 128: the whole block is a
\* big-endian integer incremented modulo 2^128 (carry through every byte).
Inc128(c) ==
  LET step(s, i) ==     \* s = <<bytes, carry>>, i runs from 16 down to 1
        LET v == s[1][i] + s[2] IN << [s[1] EXCEPT ![i] = v % 256], v \div 256 >>
  IN FoldLeft(step, << c, 1 >>, Reverse(Iota(1, 16)))[1]
INSTANCE Modes WITH E <- A!CipherW, D <- A!InvCipherW, BXor <- XorBytes, Inc <- Inc128
Schedule(key) == A!KeyExpansion(key)
=============================================================================
