----------------------------- MODULE MC_Pipeline -----------------------------
(* Bounded configurations of Pipeline: the load sequence comes from Chunking for an
   input of N bytes (Dir = "enc") or a ciphertext body of N bytes (Dir = "dec"). *)
EXTENDS Pipeline
CONSTANTS N, S, Dir, EofPeek, Pad
LOCAL Ck == INSTANCE Chunking
RawLoads == IF Dir = "enc" THEN Ck!EncLoads(N, S) ELSE Ck!DecLoads(N, S, EofPeek)
MCLoads == [j \in 1..Len(RawLoads) |-> << RawLoads[j][1], RawLoads[j][3] >>]
MCDecPad == IF Dir = "enc" THEN 0 ELSE Pad
=============================================================================
