------------------------------ MODULE CLIVectors ------------------------------
(* C17 vector generation: well-formed base vectors of every mode and all their single-token
   mutations (replace / insert / delete), permutations of the bases, plus all vectors of length
   <= 2; each with the class CLI.tla assigns.  Also evaluates the design-level ASSUMEs. *)
EXTENDS CLI, TLC, Json, IOUtils, SequencesExt, FiniteSetsExt
ASSUME NoModeFails /\ TwoModesFail /\ NeedKey /\ BadValueFails
Bases == { <<"e", "iF", "oO">>, <<"e", "iF", "oO", "kK">>, <<"e", "iF">>, <<"en", "iF", "oO", "c2", "h1">>, <<"le", "iLong", "oO">>,
           <<"d", "iE", "oO", "kK">>, <<"ld", "iE", "kK", "oO">>, <<"v", "iE", "kK">>, <<"vn", "iE", "kK">>, <<"V">>, <<"h">>, <<"e", "iE", "oO", "kW">>, <<"e", "iProc">>, <<"e", "iProc", "oO">>, <<"e", "iLen122">>, <<"e", "iLen123">>, <<"en", "iLen123", "kK">> }
Replace(b) == { [b EXCEPT ![i] = t] : i \in 1..Len(b), t \in Tokens }
InsertT(b) == { SubSeq(b, 1, i) \o <<t>> \o SubSeq(b, i + 1, Len(b)) : i \in 0..Len(b), t \in Tokens }
DeleteT(b) == { SubSeq(b, 1, i - 1) \o SubSeq(b, i + 1, Len(b)) : i \in 1..Len(b) }
Perms(b) == { [i \in 1..Len(b) |-> b[p[i]]] : p \in { q \in [1..Len(b) -> 1..Len(b)] : \A x, y \in 1..Len(b) : x # y => q[x] # q[y] } }
\* one fault at a time around the three principal command lines: always run, also in the quick tier
CoreBases == { <<"e", "iF", "oO", "kK">>, <<"d", "iE", "oO", "kK">>, <<"v", "iE", "kK">> }
Core == UNION { Replace(b) \cup InsertT(b) \cup DeleteT(b) : b \in CoreBases }
AllRaw == UNION { Replace(b) \cup InsertT(b) \cup DeleteT(b) \cup Perms(b) : b \in Bases } \cup Seqs(2)
\* the empty argument vector starts the interactive prompt mode, which the property excludes
All == AllRaw \ { <<>> }
Vectors == SetToSeq({ [tokens |-> v, class |-> Class(v), core |-> IF v \in Core THEN 1 ELSE 0] : v \in All })
ASSUME JsonSerialize(IOEnv.OUT, Vectors)
ASSUME PrintT(<<"VECTORS", Len(Vectors), Cardinality({v \in All : Class(v) = "OK"}), Cardinality({v \in All : Class(v) = "MAY"}), Cardinality(Core)>>)
=============================================================================
