"""Shared machinery for the wencry verification checks: building harnesses from /repo's
working tree, running TLC, sharded trace validation, known findings, evidence."""
import concurrent.futures as cf
import contextlib, fcntl, glob, hashlib, json, os, random, re, shutil, signal, subprocess, sys, time

VERIF = os.path.dirname(os.path.dirname(os.path.abspath(__file__)))
REPO = os.environ.get("WV_REPO", "/repo")
SPEC = os.path.join(VERIF, "spec")
HARNESS = os.path.join(VERIF, "harness")
CACHE = os.environ.get("WV_CACHE", "/var/tmp/wencry-verif")
RUN = os.environ.get("WV_RUN", os.path.join(VERIF, "run"))
REPLAYS = os.environ.get("WV_REPLAYS", os.path.join(VERIF, "replays"))
EVIDENCE = os.environ.get("WV_EVIDENCE", os.path.join(VERIF, "evidence"))
NCPU = min(16, os.cpu_count() or 4)
GUARD = "WENCRY_VERIF"


class Infra(Exception):
    """Failure of the machinery itself (build error, TLC error): exit status 2, never a VIOLATION."""


def seed():
    try:
        return int(os.environ.get("VERIF_SEED", "1"))
    except ValueError:
        return 1


def tier(argv_tier=None):
    t = argv_tier or os.environ.get("VERIF_TIER", "quick")
    return t if t in ("quick", "thorough") else "quick"


# ------------------------------------------------------------------ building
REPO_SRC = {
    "hash": ["kernel/hash/hashmaster.cpp", "kernel/hash/sha1.cpp", "kernel/hash/md5.cpp",
             "kernel/hash/sha256.cpp", "kernel/hash/hashbuffer.cpp"],
    "aes": ["kernel/multi_aes/aes/aes.cpp", "kernel/multi_aes/aes/aesmode.cpp"],
    "pipe": ["kernel/multi_aes/multicry.cpp", "kernel/multi_aes/multi_buffergroup.cpp"],
    "kernel": ["kernel/fheader.cpp", "kernel/cry.cpp"],
    "b64": ["valget/base64/base64.cpp"],
    "cli": ["valget/getval1.cpp", "valget/getopts.cpp", "valget/information.cpp"],
    "main": ["main.cpp"],
}
INCLUDES = ["kernel", "kernel/hash", "kernel/multi_aes", "kernel/multi_aes/aes", "valget", "valget/base64"]
SAN = ["-fsanitize=address,undefined", "-fno-sanitize=alignment", "-fno-omit-frame-pointer", "-fno-sanitize-recover=undefined"]      # alignment: the pinned tree stores cipher state through u32_t pointers into byte buffers - value-correct on this platform, and C09 is about values


def repo_files():
    fs = []
    for pat in ("kernel/**/*.cpp", "kernel/**/*.h", "valget/**/*.cpp", "valget/**/*.h", "main.cpp", "config.h.in"):
        fs += glob.glob(os.path.join(REPO, pat), recursive=True)
    return sorted(set(fs))


def _digest(paths, extra):
    h = hashlib.sha256()
    for p in paths:
        h.update(p.encode()); h.update(b"\0")
        with open(p, "rb") as f:
            h.update(f.read())
    h.update(repr(extra).encode())
    return h.hexdigest()[:20]


@contextlib.contextmanager
def locked(path):
    """Inter-process lock (several checks may run at once and share the build / graph cache)."""
    os.makedirs(os.path.dirname(path), exist_ok=True)
    with open(path + ".lock", "w") as f:
        fcntl.flock(f, fcntl.LOCK_EX)
        try:
            yield
        finally:
            fcntl.flock(f, fcntl.LOCK_UN)


def prune_cache(keep=40, grace_s=4 * 3600):
    """Drop old build directories - never one used in the last hours: a long exploration keeps its graphs in
    the directory of its build while other checks (other trees) build theirs."""
    if not os.path.isdir(CACHE):
        return
    ds = [os.path.join(CACHE, d) for d in os.listdir(CACHE) if os.path.isdir(os.path.join(CACHE, d)) and not d.startswith("tlc") and d not in ("locks", "proofs")]
    ds.sort(key=os.path.getmtime, reverse=True)
    now = time.time()
    for d in ds[keep:]:
        try:
            if now - os.path.getmtime(d) > grace_s:
                shutil.rmtree(d, ignore_errors=True)
        except OSError:
            pass


def build(name, groups, harness_srcs, flags=(), sanitize=True, opt="-O1", cxx="g++", extra_link=(), force_include=None):
    """Compile the given /repo source groups plus harness sources into one executable.
    Always from /repo's current working tree; cached by content hash."""
    srcs = []
    for g in groups:
        srcs += [os.path.join(REPO, s) for s in REPO_SRC[g]]
    hs = [os.path.join(HARNESS, s) for s in harness_srcs]
    hdrs = glob.glob(os.path.join(HARNESS, "*.h"))
    allflags = ["-std=gnu++17", opt, "-g", "-D" + GUARD, "-DOPT_ON", "-pthread", "-w"] + list(flags)
    if sanitize:
        allflags += SAN
    allflags += os.environ.get("WV_EXTRA_FLAGS", "").split()      # lib/coverage.py: --coverage -DWV_COVERAGE
    key = _digest(repo_files() + hs + sorted(hdrs), (name, allflags, cxx, extra_link, force_include))
    d = os.path.join(CACHE, key)
    exe = os.path.join(d, name)
    if os.path.exists(exe):
        os.utime(d, None)
        return exe
    with locked(os.path.join(CACHE, "locks", key)):
        return _build_locked(name, d, exe, srcs, hs, allflags, cxx, extra_link, force_include)


def _build_locked(name, d, exe, srcs, hs, allflags, cxx, extra_link, force_include):
    if os.path.exists(exe):
        return exe
    os.makedirs(os.path.join(d, "generated"), exist_ok=True)
    with open(os.path.join(d, "generated", "config.h"), "w") as f:
        f.write('#pragma once\n#define V_BUILD_TIME "verif"\n#define PROJECT_VERSION_MAJOR 3\n'
                '#define PROJECT_VERSION_MINOR 7\n#define PROJECT_VERSION_PATCH 4\n#define PROJECT_VERSION "v3.7.4"\n')
    inc = ["-I" + os.path.join(REPO, i) for i in INCLUDES] + ["-I" + os.path.join(d, "generated"), "-I" + HARNESS]

    def cc(src):
        obj = os.path.join(d, hashlib.md5(src.encode()).hexdigest()[:10] + "_" + os.path.basename(src) + ".o")
        cmd = [cxx] + allflags + inc
        if force_include and src.startswith(REPO):
            cmd += ["-include", os.path.join(HARNESS, force_include)]
        cmd += ["-c", src, "-o", obj]
        r = subprocess.run(cmd, stdout=subprocess.PIPE, stderr=subprocess.STDOUT, text=True)
        if r.returncode:
            raise Infra("compile failed: %s\n%s" % (" ".join(cmd), r.stdout[-4000:]))
        return obj

    with cf.ThreadPoolExecutor(NCPU) as ex:
        objs = list(ex.map(cc, srcs + hs))
    cmd = [cxx] + allflags + objs + ["-o", exe + ".tmp"] + list(extra_link)
    r = subprocess.run(cmd, stdout=subprocess.PIPE, stderr=subprocess.STDOUT, text=True)
    if r.returncode:
        raise Infra("link failed: %s\n%s" % (" ".join(cmd), r.stdout[-4000:]))
    os.rename(exe + ".tmp", exe)
    prune_cache()
    return exe


ASAN_ENV = {"ASAN_OPTIONS": "detect_leaks=0:abort_on_error=1:allocator_may_return_null=1:new_delete_type_mismatch=0",
            "UBSAN_OPTIONS": "halt_on_error=1:print_stacktrace=1"}


def run_harness(exe, args, out_path=None, timeout=600, env=None, cwd=None, stdin=None):
    e = dict(os.environ); e.update(ASAN_ENV); e["VERIF_SEED"] = str(seed())
    if env:
        e.update(env)
    # own process group: on a time-out every descendant goes too (a driver forks the code under test; a child that
    # spins for ever must not outlive the check)
    p = subprocess.Popen([exe] + [str(a) for a in args], stdout=subprocess.PIPE, stderr=subprocess.PIPE, stdin=subprocess.PIPE if stdin is not None else None,
                         env=e, cwd=cwd, start_new_session=True)
    try:
        out, err = p.communicate(input=stdin, timeout=timeout)
    except subprocess.TimeoutExpired:
        try:
            os.killpg(p.pid, signal.SIGKILL)
        except OSError:
            pass
        p.communicate()
        raise Infra("harness %s timed out after %ss" % (os.path.basename(exe), timeout))
    finally:
        try:
            os.killpg(p.pid, signal.SIGKILL)      # stragglers of a driver that has already returned
        except OSError:
            pass
    r = subprocess.CompletedProcess([exe], p.returncode, out, err)
    if out_path:
        with open(out_path, "wb") as f:
            f.write(r.stdout)
    return r


# ------------------------------------------------------------------ TLC
TLC_JAR = "/opt/veriftools/tla/tla2tools.jar:/opt/veriftools/tla/CommunityModules-deps.jar"
_meta_n = [0]


def tlc(module, cfg=None, env=None, workers=1, timeout=900, xmx=None, extra=(), cwd=SPEC, dfs=False, c1=None):
    """Run TLC on spec/<module>.tla. Returns dict(rc, out, states, distinct, depth, violated, errors)."""
    _meta_n[0] += 1
    meta = os.path.join(CACHE, "tlc-%d-%d-%d" % (os.getpid(), _meta_n[0], random.randrange(1 << 30)))
    os.makedirs(meta, exist_ok=True)
    e = dict(os.environ)
    if env:
        e.update({k: str(v) for k, v in env.items()})
    # measured: many short single-worker JVMs in parallel are dominated by heap/fingerprint-set
    # zeroing (sys time) and C2 compilation; a small heap and C1-only cut an 8-way run from 13.4 s to 3.5 s
    if xmx is None:
        xmx = "500m" if workers == 1 else "4g"
    if c1 is None:
        c1 = workers == 1
    jopts = ["-Xmx" + xmx, "-Xss64m", "-DTLA-Library=/opt/veriftools/tlapm/lib/tlapm/stdlib"]   # TLAPS.tla for modules that carry proofs
    if c1:
        jopts.append("-XX:TieredStopAtLevel=1")
    if workers == 1:
        jopts += ["-XX:+UseSerialGC"]
    else:
        jopts += ["-XX:+UseParallelGC", "-XX:ParallelGCThreads=%d" % min(8, workers)]
    if dfs:
        jopts.append("-Dtlc2.tool.queue.IStateQueue=StateDeque")
    cmd = ["timeout", str(timeout), "java"] + jopts + ["-cp", TLC_JAR, "tlc2.TLC", "-metadir", meta,
           "-noGenerateSpecTE", "-workers", str(workers), "-config", (cfg or module) + ".cfg"] + list(extra) + [module + ".tla"]
    t0 = time.time()
    r = subprocess.run(cmd, cwd=cwd, env=e, stdout=subprocess.PIPE, stderr=subprocess.STDOUT, text=True, errors="replace")
    shutil.rmtree(meta, ignore_errors=True)
    out = r.stdout
    res = {"rc": r.returncode, "out": out, "wall": time.time() - t0, "states": 0, "distinct": 0, "depth": 0}
    m = re.findall(r"(\d+) states generated, (\d+) distinct states found", out)
    if m:
        res["states"], res["distinct"] = int(m[-1][0]), int(m[-1][1])
    m = re.search(r"depth of the complete state graph search is (\d+)", out)
    if m:
        res["depth"] = int(m.group(1))
    res["violated"] = r.returncode in (12, 13) or "is violated" in out or "Deadlock reached" in out
    res["ok"] = (r.returncode == 0 and "No error has been found" in out) or \
                (r.returncode == 0 and "Model checking completed" in out)
    if r.returncode == 124:
        raise Infra("TLC timed out (%ss) on %s" % (timeout, module))
    return res


def tlc_must_run(res, what):
    """Infrastructure check: TLC must have either completed or found a property violation."""
    if not (res["ok"] or res["violated"]):
        raise Infra("TLC failed on %s (rc=%s):\n%s" % (what, res["rc"], res["out"][-3000:]))


def parse_printed(out, tag):
    """Extract values printed by PrintT(<<"tag", ...>>) from TLC output; returns list of python lists."""
    flat = re.sub(r"\s+", " ", out)
    vals = []
    for m in re.finditer(r'<<\s*"%s"\s*,(.*?)>>(?=\s*(?:<<\s*"|$|[A-Z@]))' % re.escape(tag), flat):
        vals.append(m.group(1).strip())
    return vals


def validate_trace(module, events, shards=None, timeout=2400, env=None, name=None, xmx="500m", per_shard_min=1, c1=None):
    """Write events (list of dicts) as ndjson shards and run spec/<module>.tla on each with
    TRACE=<shard>. The module must print <<"BAD", line, id, why>> for rejected events and
    <<"DONE", n_events, n_bad>> when the whole shard has been consumed.
    Returns (bad list of (event, why), stats)."""
    name = name or module
    d = os.path.join(RUN, name)
    shutil.rmtree(d, ignore_errors=True)
    os.makedirs(d, exist_ok=True)
    n = len(events)
    if n == 0:
        return [], {"events": 0, "states": 0, "wall": 0.0, "shards": 0}
    shards = max(1, min(shards or 12, n // max(1, per_shard_min) or 1))
    parts = [events[i::shards] for i in range(shards)]
    paths = []
    for i, p in enumerate(parts):
        path = os.path.join(d, "shard%02d.ndjson" % i)
        with open(path, "w") as f:
            for ev in p:
                f.write(json.dumps(ev, separators=(",", ":")) + "\n")
        paths.append(path)

    def one(i):
        e = {"TRACE": paths[i]}
        if env:
            e.update(env)
        return tlc(module, env=e, workers=1, timeout=timeout, xmx=xmx, c1=c1)

    t0 = time.time()
    with cf.ThreadPoolExecutor(shards) as ex:
        rs = list(ex.map(one, range(shards)))
    bad, states = [], 0
    for i, r in enumerate(rs):
        done = re.search(r'<<\s*"DONE",\s*(\d+),\s*(\d+)\s*>>', re.sub(r"\s+", " ", r["out"]))
        if not done or int(done.group(1)) != len(parts[i]):
            with open(os.path.join(d, "tlc%02d.out" % i), "w") as f:
                f.write(r["out"])
            raise Infra("trace validator %s did not consume shard %d (rc=%s); output in %s\n%s" %
                        (module, i, r["rc"], d, r["out"][-2500:]))
        states += r["distinct"]
        flat = re.sub(r"\s+", " ", r["out"])
        nb = 0
        for m in re.finditer(r'<<\s*"BAD",\s*(\d+),\s*(.*?)>>(?=\s*(?:<<\s*"|[A-Z@]|$))', flat):
            line = int(m.group(1))
            bad.append((parts[i][line - 1], m.group(2).strip()))
            nb += 1
        if nb != int(done.group(2)):
            raise Infra("trace validator %s: BAD lines (%d) disagree with DONE count (%s)" % (module, nb, done.group(2)))
    return bad, {"events": n, "states": states, "wall": time.time() - t0, "shards": shards}


# ------------------------------------------------------------------ results
class Result:
    """Collects violations / known findings / notes for one property check and writes evidence."""

    def __init__(self, pid, level, the_tier):
        self.pid, self.level, self.tier = pid, level, the_tier
        self.t0 = time.time()
        self.violations = []      # (text, replay dict)
        self.known = {}           # text -> count
        self.notes = []
        self.cov = {"samples": []}
        self.assumptions = []
        os.makedirs(REPLAYS, exist_ok=True)
        os.makedirs(EVIDENCE, exist_ok=True)

    def violation(self, text, replay):
        self.violations.append((text, replay))

    def known_finding(self, text):
        self.known[text] = self.known.get(text, 0) + 1

    def note(self, s):
        self.notes.append(s)

    def add(self, key, n=1):
        self.cov[key] = self.cov.get(key, 0) + n

    def sample(self, s, cap=6):
        if len(self.cov["samples"]) < cap:
            self.cov["samples"].append(s)

    def finish(self):
        for text, cnt in self.known.items():
            print("KNOWN-FINDING: property=%s %s (%d matching cases in this run)" % (self.pid, text, cnt))
        for i, (text, replay) in enumerate(self.violations[:20]):
            path = os.path.join(REPLAYS, "%s-%d.json" % (self.pid, i))
            with open(path, "w") as f:
                json.dump({"property": self.pid, "what": text, "replay": replay}, f, indent=1, default=str)
            if self.pid.startswith("X"):      # extras: outside the listed properties, not registered in MANIFEST.json
                print("FINDING extra=%s (outside the listed properties) replay=%s" % (self.pid, path))
            else:
                print("VIOLATION property=%s replay=%s" % (self.pid, path))
            print("  " + text[:600])
        for n in self.notes[:30]:
            print("NOTE " + n)
        ev = {"property_id": self.pid, "tier": self.tier, "seed": seed(), "level": self.level,
              "coverage": self.cov, "assumptions": self.assumptions, "wall_s": round(time.time() - self.t0, 2),
              "violations": len(self.violations)}
        if self.notes:
            ev["coverage"]["notes"] = self.notes[:30]
        if self.known:
            ev["coverage"]["known_findings"] = self.known
        evdir = EVIDENCE if not self.pid.startswith("X") else os.path.join(VERIF, "docs", "extras")
        os.makedirs(evdir, exist_ok=True)
        with open(os.path.join(evdir, self.pid + ".json"), "w") as f:
            json.dump(ev, f, indent=1, default=str)
        return 1 if self.violations else 0


def load_known():
    return json.load(open(os.path.join(VERIF, "known_findings.json")))


def rng(tag=""):
    return random.Random("%d/%s" % (seed(), tag))


def read_ndjson(path):
    evs = []
    with open(path) as f:
        for ln in f:
            ln = ln.strip()
            if ln:
                try:
                    evs.append(json.loads(ln))
                except ValueError:
                    pass      # a line cut short by a dying harness: the missing events are what the caller notices
    return evs


# ------------------------------------------------------------------ common driver/validator pattern
def record(res, pid, jobs, timeout=600):
    """Run harness jobs [(exe, args)], collect events; an aborted driver is a violation
    (the real code crashed / sanitizer fired while executing a generated case)."""
    d = os.path.join(RUN, pid); os.makedirs(d, exist_ok=True)
    events = []
    for k, (exe, args) in enumerate(jobs):
        p = os.path.join(d, "rec%d.ndjson" % k)
        r = run_harness(exe, args, p, timeout=timeout)
        evs = read_ndjson(p)
        if r.returncode != 0:
            res.violation("driver %s %s aborted (rc=%d) after %d events: %s" % (os.path.basename(exe), args, r.returncode, len(evs),
                          r.stderr.decode(errors="replace")[-1200:]), {"cmd": [exe] + [str(a) for a in args]})
        for e in evs:
            e["id"] = len(events); events.append(e)
    return events


def shorten(e, n=24):
    def sh(v):
        if isinstance(v, list):
            if len(v) > n:
                return [sh(x) for x in v[:n]] + ["...(%d items)" % len(v)]
            return [sh(x) for x in v]
        return v
    return {k: sh(v) for k, v in e.items()}


def design_runs(res, runs, workers=4):
    """runs: list of (module, cfg, must_hold). Negative controls (must_hold False) must be violated."""
    def one(r):
        return tlc(r[0], cfg=r[1], workers=workers, timeout=900)
    with cf.ThreadPoolExecutor(max(1, min(4, len(runs)))) as ex:
        outs = list(ex.map(one, runs))
    for (mod, cfg, must_hold), o in zip(runs, outs):
        tlc_must_run(o, cfg)
        if must_hold and not o["ok"]:
            raise Infra("design model %s does not satisfy its properties:\n%s" % (cfg, o["out"][-2500:]))
        if not must_hold and not o["violated"]:
            raise Infra("negative control %s did not fail: the model cannot express the defect" % cfg)
        if must_hold:
            res.add("states", o["distinct"]); res.add("transitions", o["states"])
        res.cov.setdefault("design_runs", []).append({"cfg": cfg, "expected": "holds" if must_hold else "violated (negative control)",
                                                      "distinct_states": o["distinct"], "states_generated": o["states"]})
    return outs


def tlapm(module, timeout=900):
    """Check the TLAPS proofs of spec/<module>.tla in a scratch directory. Returns (obligations, proved).
    The result depends only on the specification files, so it is cached by their content hash; the
    back-end provers run with stretched time-outs and the run is repeated (a prover time-out under
    machine load must not look like a failed proof)."""
    import tempfile
    files = sorted(glob.glob(os.path.join(SPEC, "*.tla")))
    key = _digest([f for f in files if os.path.basename(f) in (module + ".tla", "ChunkingBase.tla")], ("tlapm", module))
    cdir = os.path.join(CACHE, "proofs"); os.makedirs(cdir, exist_ok=True)
    cpath = os.path.join(cdir, key + ".json")
    if os.path.exists(cpath):
        try:
            c = json.load(open(cpath))
            return c["n"], c["ok"]
        except ValueError:
            pass
    last = ""
    best = None
    for attempt in range(3):
        d = tempfile.mkdtemp(prefix="tlapm.", dir=CACHE)
        try:
            for f in files:
                shutil.copy(f, d)
            r = subprocess.run(["timeout", str(timeout), "tlapm", "--cleanfp", "--stretch", str(3 + 3 * attempt), "-I", d, module + ".tla"], cwd=d,
                               stdout=subprocess.PIPE, stderr=subprocess.STDOUT, text=True, errors="replace")
            last = r.stdout
        finally:
            shutil.rmtree(d, ignore_errors=True)
        m = re.search(r"All (\d+) obligations? proved", last)
        if m:
            n = int(m.group(1))
            with open(cpath, "w") as f:
                json.dump({"n": n, "ok": n, "module": module}, f)
            return n, n
        m = re.search(r"(\d+)/(\d+) obligations failed", last)
        if m:
            best = (int(m.group(2)), int(m.group(2)) - int(m.group(1)))
    if best:
        return best
    raise Infra("tlapm failed on %s:\n%s" % (module, last[-2000:]))


def proofs(res, module):
    n, ok = tlapm(module)
    if ok != n:
        raise Infra("TLAPS could not discharge %d of %d obligations of %s (the specification's own theorems; not a verdict on the code)" % (n - ok, n, module))
    res.cov["tlaps_obligations"] = n
    res.cov["tlaps_discharged"] = ok
    res.cov["tlaps_module"] = module + ".tla (proved for every input length and chunk size)"
