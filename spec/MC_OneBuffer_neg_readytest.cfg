CONSTANTS Gate = TRUE  NotifyReady = TRUE  NotifyUpdate = TRUE  WaitLoop = TRUE  ReadyTest = FALSE  Spurious = TRUE
SPECIFICATION Spec
INVARIANTS TypeOK Exclusive NoUnderflow LockDiscipline
PROPERTY Retired
CHECK_DEADLOCK FALSE
