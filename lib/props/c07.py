"""C07 - SHA-1, MD5, SHA-256 digests are the standard ones for every message."""
import concurrent.futures as cf, json, os
import wv

PID = "C07"


def design_checks(res):
    """TLC on the streaming/length model (HashBuffer.tla) with its negative controls."""
    runs = [("MC_HashBuffer", "MC_HashBuffer", True), ("MC_HashBuffer", "MC_HashBuffer_neg_extra", False),
            ("MC_HashBuffer", "MC_HashBuffer_neg_wrap", False)]

    def one(r):
        return wv.tlc(r[0], cfg=r[1], workers=4, timeout=600)
    with cf.ThreadPoolExecutor(3) as ex:
        outs = list(ex.map(one, runs))
    for (mod, cfg, must_hold), o in zip(runs, outs):
        wv.tlc_must_run(o, cfg)
        if must_hold and not o["ok"]:
            raise wv.Infra("design model %s does not satisfy its properties:\n%s" % (cfg, o["out"][-2000:]))
        if not must_hold and not o["violated"]:
            raise wv.Infra("negative control %s did not fail: the model cannot express the defect" % cfg)
        if must_hold:
            res.add("states", o["distinct"]); res.add("transitions", o["states"])
    wv.proofs(res, "MDProofs")
    link = wv.tlc("MDProofsLink", workers=1, timeout=300)
    if not link["ok"]:
        raise wv.Infra("MDProofsLink failed:\n" + link["out"][-1500:])
    res.cov["design_model"] = "HashBuffer.tla: all lengths 0..264 x refill {1,2,3} units x prefix block; invariants UnitsPrefix, UnitsExact, LengthExact, InBounds, <>done; negative controls LenBeforeExtra=FALSE (D4a) and CounterWrap=256 (D4b) both violate LengthExact"


def run(tier, replay):
    res = wv.Result(PID, "exploration", tier)
    maxlen = 200 if tier == "quick" else 330
    reps = 2 if tier == "quick" else 4
    with cf.ThreadPoolExecutor(8) as ex:
        fd = ex.submit(design_checks, res)
        builds = {h: ex.submit(wv.build, "h_hash", ["hash"], ["h_hash.cpp"], ["-DWENCRY_VERIF_HBUF_SZ=%d" % h]) for h in (1, 2, 3)}
        exes = {h: b.result() for h, b in builds.items()}
        fd.result()
    events = []
    d = os.path.join(wv.RUN, PID); os.makedirs(d, exist_ok=True)
    if replay:
        events = json.load(open(replay))["replay"]["events"]
    else:
        jobs = [(exes[1], ["string", maxlen, reps])] + [(exes[h], ["file", maxlen, 1 if tier == "quick" else 2]) for h in (1, 2, 3)]
        for k, (exe, args) in enumerate(jobs):
            p = os.path.join(d, "rec%d.ndjson" % k)
            r = wv.run_harness(exe, args, p)
            evs = wv.read_ndjson(p)
            if r.returncode != 0:
                res.violation("hash driver %s aborted (rc=%d) after %d events: %s" % (args, r.returncode, len(evs), r.stderr.decode(errors="replace")[-800:]),
                              {"cmd": [exe] + [str(a) for a in args]})
            for e in evs:
                e["id"] = len(events); events.append(e)
        for scale in (["mid"] if tier == "quick" else ["mid", "full"]):
            exe = wv.build("h_hash_big", ["hash"], ["h_hash.cpp"], ["-DWENCRY_VERIF_HBUF_SZ=2"], sanitize=False, opt="-O2")
            p = os.path.join(d, "big_%s.ndjson" % scale)
            r = wv.run_harness(exe, ["big", scale], p, timeout=1500)
            evs = wv.read_ndjson(p)
            if r.returncode != 0 or len(evs) != 15:
                res.violation("long-message hash run (%s) did not complete (rc=%d, %d of 15 events)" % (scale, r.returncode, len(evs)), {"cmd": [exe, "big", scale]})
            for e in evs:
                e["id"] = len(events); events.append(e)
    # read-level binding of the streaming model: every read_buffer64 call of the real filebuffer64 as one
    # HashBuffer action (HashBufferTrace.tla)
    nb_runs = nb_reads = 0
    if not replay:
        bt = []
        for h in (1, 2, 3):
            p = os.path.join(d, "buf%d.ndjson" % h)
            r = wv.run_harness(exes[h], ["buftrace", maxlen, 1], p)
            ev = wv.read_ndjson(p)
            if r.returncode != 0:
                res.violation("hash-buffer trace driver aborted (refill %d units)" % h, {"cmd": [exes[h], "buftrace"]})
            for e in ev:
                e["id"] = len(bt); bt.append(e)
        bbad, bst = wv.validate_trace("HashBufferTrace", bt, name=PID + "/tlcbuf", shards=6)
        nb_runs, nb_reads = len(bt), sum(len(e["reads"]) for e in bt)
        # how the buffer cuts the region into reads is implementation latitude: a mismatch with HashBuffer.tla is drift;
        # what C07/C08 demand - the standard digest of the region - is decided on the digests below
        for k, (e, why) in enumerate(bbad):
            if k < 3:
                res.note("spec-drift: filebuffer64 (refill %d units, %d-byte message, prefix %d) does not read as HashBuffer.tla does: %s" % (e["hbuf"], e["n"], e["pre"], why[:160]))
        if bbad:
            res.cov["hash_buffer_runs_not_explained_by_the_model"] = len(bbad)
        res.cov["hash_buffer_runs_validated_as_behaviours"] = nb_runs
        res.cov["hash_buffer_reads"] = nb_reads
    bad, st = wv.validate_trace("HashTrace", events, name=PID + "/tlc")
    keys = set()
    for e in events:
        if e["e"] == "hash":
            keys.add((e["alg"], e["entry"], e.get("hbuf", 0), len(e["prefix"]), e["n"]))
        else:
            keys.add((e["alg"], "big", tuple(e["nl"]), len(e["tail"])))
    res.cov.update({"evaluations": len(events), "distinct_nontrivial": len([k for k in keys if k[-1] != 0 or k[1] == "big"]),
                    "rule": "one case = (algorithm, entry point [getStringHash | getFileHash through filebuffer64 with refill 1/2/3 units, with and without the 64-byte HMAC prefix block, stream positioned 0 or 5 bytes into the file], message length); every length 0..%d, patterned and random contents; 15 messages around 8 KiB and 2 MiB (third / fourth byte of the bit length) and, in thorough, 15 around 2^29 bytes (bit counter crossing 2^32), checked through the chaining value before the tail. Non-trivial = non-empty message. Each digest is recomputed by TLC from the executable FIPS 180-4 / RFC 1321 transcription (spec/SHA1.tla, MD5.tla, SHA256.tla, MD.tla)." % maxlen,
                    "traces_validated_against_impl": len(events), "validator_states": st["states"], "exhaustive": False})
    for e in events[:: max(1, len(events) // 4)][:4]:
        res.sample({k: (v if not isinstance(v, list) or len(v) <= 24 else v[:24] + ["..."]) for k, v in e.items()})
    for e, why in bad:
        res.violation("digest of a %d-byte message (alg %s, entry %s) differs from the standard: %s" %
                      (e.get("n", -1), e["alg"], e.get("entry", "big"), why[:300]), {"events": [e]})
    res.assumptions += ["TLC, the Json/IOUtils/Bitwise overrides, and the transcription of the standards (anchored by KAT ASSUMEs and a setup-time cross-check against hashlib)",
                        "message contents are sampled (patterned + seeded random); lengths are exhaustive in the stated range"]
    return res.finish()
