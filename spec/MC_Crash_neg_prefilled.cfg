CONSTANTS Ts = {1}  NBs = {2}  HMs = {1}  Plan = "zerofill_last"  ChunkBlocks = 2
SPECIFICATION Spec
INVARIANTS CrashSafe
CHECK_DEADLOCK FALSE
