"""C18 - each cipher stream in a file starts from its own seed-dependent IV."""
import concurrent.futures as cf, json, os
import wv
from props import c01
PID = "C18"


def run(tier, replay):
    res = wv.Result(PID, "exploration", tier)
    kf = [k for k in wv.load_known()["open"] if k["id"] == "D8"][0]
    exe = c01.e2e_exe(2)
    if replay:
        events = json.load(open(replay))["replay"]["events"]
    else:
        jobs = [(exe, ["same", T, 4 if tier == "quick" else 8]) for T in ((2, 3, 4, 16) if tier == "quick" else (2, 3, 4, 5, 8, 13, 14, 16))]
        jobs += [(exe, ["rt", T, 64, 130 if tier == "quick" else 200, 11 if tier == "quick" else 1, "rot"]) for T in ((2, 3) if tier == "quick" else (2, 3, 4, 5))]
        jobs += [(exe, ["rt", 1, 64, 100, 12, "rot"])]
        with cf.ThreadPoolExecutor(8) as ex:
            parts = list(ex.map(lambda j: wv.record(res, PID + "/j%d" % j[0], [j[1]]), enumerate(jobs)))
        events = []
        for p in parts:
            for e in p:
                e["id"] = len(events); events.append(e)
    bad, st = wv.validate_trace("IvTrace", events, name=PID + "/tlc", shards=14)
    rts = [e for e in events if e["e"] == "rt"]
    # seed dependence across events: different seeds never give the same IV field
    seen = {}
    for e in rts:
        ivf = bytes(e["C"][48:48 + 20 * e["T"]])
        s = bytes(e["seed"])
        if ivf[:20] in seen and seen[ivf[:20]] != s:
            res.violation("two different seeds produced the same first IV", {"events": [wv.shorten(e, 64)]})
        seen[ivf[:20]] = s
    keys = set((e["T"], e["n"], e["cm"], e["cls"]) for e in rts)
    res.cov.update({"evaluations": len(events), "distinct_nontrivial": len([k for k in keys if k[0] >= 2 and k[2] != 0]),
                    "rule": "multi-chunk plaintexts (S=32): 2..4 (8) identical chunks and random contents, T in {2,3,4,16} (thorough: 2,3,4,5,8,13,14,16), all five modes, several seeds. TLC checks the stored IVs are pairwise distinct and equal the SHA-1 chain of the seed, recomputes the body under both hypotheses StreamIV(j)=iv[0] / iv[j] and evaluates the symptoms (equal ciphertext chunks, CTR/OFB keystream reuse). Non-trivial = T>=2 and a non-ECB mode.",
                    "traces_validated_against_impl": len(rts), "validator_states": st["states"], "exhaustive": False})
    for e in rts[:: max(1, len(rts) // 3)][:3]:
        res.sample(wv.shorten(e, 16))
    for e, why in bad:
        if "KNOWN-D8" in why:
            res.known_finding(kf["text"])
        else:
            res.violation("file T=%s n=%s cm=%s: %s" % (e.get("T"), e.get("n"), e.get("cm"), why[:300]), {"events": [e]})
    res.assumptions += ["ideal-cipher reading of 'different IV => different keystream'", "contents/keys/seeds sampled"]
    return res.finish()
