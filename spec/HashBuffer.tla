----------------------------- MODULE HashBuffer -----------------------------
(***************************************************************************)
(* The streaming side of wencry's hashing: the 64-byte unit buffer         *)
(* (filebuffer64: optional prefix block, HBUF units per refill, the tail   *)
(* delivered once) driven by the loop of Hashmaster::getFileHash, and the  *)
(* bit-length bookkeeping of the final-block path.                         *)
(*                                                                         *)
(* One action per call of read_buffer64 (together with the getHash call    *)
(* that consumes the unit), so that a recorded sequence of calls is a      *)
(* behaviour of this machine.                                              *)
(*                                                                         *)
(* The file is the sequence 1..N (byte i has value i) read from position   *)
(* Skip; the prefix block is the sequence -1..-64 shifted to 1001..1064.   *)
(* Switches LenBeforeExtra / CounterWrap describe the two length defects   *)
(* repaired in the tree (D4a, D4b); their defect values are used by the    *)
(* negative-control configurations only.                                   *)
(***************************************************************************)
EXTENDS Naturals, Sequences, SequencesExt, FiniteSets, TLC

CONSTANTS MaxN,            \* message lengths 0..MaxN are explored
          HBufs,           \* set of refill sizes (units per refill)
          LenBeforeExtra,  \* TRUE: length taken before the extra padding block (repaired)
          CounterWrap      \* 0: 64-bit counter (repaired); k > 0: the byte counter wraps at k

VARIABLES n, hbuf, hasPrefix,      \* the configuration chosen in Init
          fpos,                    \* file position of the underlying stream
          base, total, now, tail,  \* filebuffer64 fields (base = file offset of unit 0 of the buffer)
          hasExtra,
          units,                   \* the units handed to the hash so far (sequence of byte sequences)
          counted,                 \* bytes counted by the hash object's length counter
          lenField,                \* the length (in bytes) encoded by the final-block path; 0 until done
          pc
vars == << n, hbuf, hasPrefix, fpos, base, total, now, tail, hasExtra, units, counted, lenField, pc >>

Prefix == [i \in 1..64 |-> 1000 + i]
Msg(len) == [i \in 1..len |-> i]
Min2(a, b) == IF a < b THEN a ELSE b
Wrap(x) == IF CounterWrap = 0 THEN x ELSE x % CounterWrap

Init == /\ n \in 0..MaxN /\ hbuf \in HBufs /\ hasPrefix \in BOOLEAN
        /\ fpos = 0 /\ base = 0 /\ total = 0 /\ now = 0 /\ tail = 0
        /\ hasExtra = hasPrefix /\ units = <<>> /\ counted = 0 /\ lenField = 0
        /\ pc = "ctor"

\* fread(b, 1, HBUF << 6, fp): as many bytes as are left, at most one buffer
Fill == LET sum == Min2(hbuf * 64, n - fpos)
        IN /\ tail' = sum % 64 /\ total' = sum \div 64 /\ base' = fpos /\ fpos' = fpos + sum /\ now' = 0

Ctor == /\ pc = "ctor" /\ Fill /\ pc' = "loop"
        /\ UNCHANGED << n, hbuf, hasPrefix, hasExtra, units, counted, lenField >>

\* what the final-block path does with a tail of k bytes
Final(k, cnt) ==
  LET c1 == Wrap(cnt + k)                                   \* addtotal(final_loadsize)
      c2 == IF k >= 56 THEN Wrap(c1 + 64) ELSE c1           \* the extra block is compressed via getHash(block)
  IN << IF LenBeforeExtra THEN c1 ELSE c2, c2 >>            \* << encoded length, counter afterwards >>

Deliver(u) ==
  /\ units' = Append(units, u)
  /\ IF Len(u) = 64
     THEN counted' = Wrap(counted + 64) /\ lenField' = lenField /\ pc' = "loop"
     ELSE LET f == Final(Len(u), counted) IN lenField' = f[1] /\ counted' = f[2] /\ pc' = "done"

ReadExtra == /\ pc = "loop" /\ hasExtra
             /\ hasExtra' = FALSE /\ Deliver(Prefix)
             /\ UNCHANGED << n, hbuf, hasPrefix, fpos, base, total, now, tail >>

\* the index used for memcpy(block, b[now++], load_size) must lie inside the buffer
\* whenever bytes are copied
InBounds == pc = "loop" /\ ~hasExtra /\ now # hbuf => now < hbuf

ReadUnit ==
  /\ pc = "loop" /\ ~hasExtra
  /\ LET refill == now = hbuf
         sum    == Min2(hbuf * 64, n - fpos)
         tot    == IF refill THEN sum \div 64 ELSE total
         tl     == IF refill THEN sum % 64 ELSE tail
         nw     == IF refill THEN 0 ELSE now
         bs     == IF refill THEN fpos ELSE base
         size   == IF nw >= tot THEN tl ELSE 64
     IN /\ fpos' = IF refill THEN fpos + sum ELSE fpos
        /\ base' = bs /\ total' = tot
        /\ tail' = IF nw = tot THEN 0 ELSE tl
        /\ now' = nw + 1
        /\ Deliver(SubSeq(Msg(n), bs + 64 * nw + 1, bs + 64 * nw + size))
  /\ UNCHANGED << n, hbuf, hasPrefix, hasExtra >>

Next == Ctor \/ ReadExtra \/ ReadUnit
Spec == Init /\ [][Next]_vars /\ WF_vars(Next)

\* ---- properties ---------------------------------------------------------
Whole == (IF hasPrefix THEN Prefix ELSE <<>>) \o Msg(n)
Flat(us) == FoldLeft(LAMBDA acc, u : acc \o u, <<>>, us)

\* the units delivered so far are the 64-byte units of prefix \o message, in order
UnitsPrefix == /\ IsPrefix(Flat(units), Whole)
               /\ \A i \in 1..(Len(units) - 1) : Len(units[i]) = 64
\* at the end: everything delivered, exactly one short unit (the tail, possibly empty), last
UnitsExact == pc = "done" =>
                /\ Flat(units) = Whole
                /\ Len(units[Len(units)]) < 64
                /\ Len(units[Len(units)]) = Len(Whole) % 64
\* the length the padding encodes is the message length (C07: 56-byte threshold, counter width)
LengthExact == pc = "done" => lenField = Len(Whole)
Terminates == <>(pc = "done")

\* the in-memory entry point (getStringHash): units at offsets 0, 64, ... then the rest
StringUnits(len) == [i \in 1..(len \div 64 + 1) |->
                       SubSeq(Msg(len), 64 * (i - 1) + 1, Min2(64 * i, len))]
StringOK == \A len \in 0..MaxN :
              /\ Flat(StringUnits(len)) = Msg(len)
              /\ \A i \in 1..(len \div 64) : Len(StringUnits(len)[i]) = 64
              /\ Len(StringUnits(len)[len \div 64 + 1]) = len % 64
=============================================================================
