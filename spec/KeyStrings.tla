------------------------------ MODULE KeyStrings -----------------------------
(***************************************************************************)
(* C16/C17 vector generation: candidate key strings over character         *)
(* classes, each with the verdict the specification assigns.  Classes:     *)
(* "a" alphabet letter or digit, "+", "/", "=" padding, "x" printable      *)
(* character outside the alphabet, "h" byte with the high bit set.         *)
(* TLC enumerates the set and writes it as JSON (IOEnv.OUT); the driver    *)
(* instantiates the classes with concrete characters.                      *)
(***************************************************************************)
EXTENDS Naturals, Sequences, FiniteSets, FiniteSetsExt, SequencesExt, TLC, Json, IOUtils

Lens == {0, 4, 20, 22, 23, 24, 25, 28}
Special == {"+", "/", "=", "x", "h"}
Min2(a, b) == IF a < b THEN a ELSE b
Base(L, p) == [i \in 1..L |-> IF i > L - p THEN "=" ELSE "a"]

OneOff == UNION { {Base(L, p)} \cup { [Base(L, p) EXCEPT ![i] = c] : i \in 1..L, c \in Special }
                  : <<L, p>> \in { <<L, p>> \in Lens \X (0..3) : p <= L } }
\* two deviations at the interesting positions of a 24-character candidate
Pos2 == {1, 2, 12, 21, 22, 23, 24}
TwoOff == { [Base(24, p) EXCEPT ![i] = c, ![j] = d] :
              <<p, i, j, c, d>> \in { t \in (0..3) \X Pos2 \X Pos2 \X Special \X Special : t[2] < t[3] } }
Candidates == OneOff \cup TwoOff

\* the key predicate on abstract strings (Base64!KeyValid with classes for characters)
KeyValidAbs(s) == /\ Len(s) = 24
                  /\ \A i \in 1..22 : s[i] \in {"a", "+", "/"}
                  /\ s[23] = "=" /\ s[24] = "="
Vectors == SetToSeq({ [s |-> c, valid |-> KeyValidAbs(c)] : c \in Candidates })
ASSUME JsonSerialize(IOEnv.OUT, Vectors)
ASSUME PrintT(<<"VECTORS", Len(Vectors), Cardinality({c \in Candidates : KeyValidAbs(c)})>>)
=============================================================================
