
