
