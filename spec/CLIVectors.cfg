
