---------------------------- MODULE MDProofsLink ----------------------------
(* TLC check that the definitions proved about in MDProofs.tla are those of MD.tla. *)
EXTENDS Naturals
M == INSTANCE MD
P == INSTANCE MDProofs
ASSUME \A n \in 0..2000 : M!ZeroFill(n) = P!ZeroFill(n) /\ M!NBlocks(n) = P!NBlocks(n)
=============================================================================
