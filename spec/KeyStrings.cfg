
