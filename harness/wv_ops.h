// Helpers to run the real runcrypt operations on in-memory files from a harness.
#ifndef WV_OPS_H
#define WV_OPS_H
#include "wv_json.h"
#include "cry.h"
#include <sys/wait.h>
#include <signal.h>
#include <fcntl.h>

// events go to a private descriptor because the code under test prints to stdout
static FILE *wv_out = NULL;
static inline void wv_capture_stdout()
{
  fflush(stdout);
  int fd = dup(1);
  wv_out = fdopen(fd, "w");
  int nul = open("/dev/null", O_WRONLY);
  dup2(nul, 1);
  close(nul);
}
struct MemFile
{
  int fd; // our own descriptor, survives the fclose() done by runcrypt::over()
  FILE *f;
  explicit MemFile(const std::vector<u8_t> &v, const char *mode = "rb+")
  {
    f = wv_memfile(v, mode);
    fd = dup(fileno(f));
  }
  std::vector<u8_t> bytes() const
  {
    off_t n = lseek(fd, 0, SEEK_END);
    std::vector<u8_t> v(n);
    if (n > 0 && pread(fd, v.data(), n, 0) != n)
      exit(3);
    return v;
  }
  ~MemFile() { close(fd); }
};
struct OpResult
{
  bool ret;
  std::vector<u8_t> out, in_after;
};
// Echo (the CLI default) is part of the behaviour under test: every verification runs with the progress /
// result printing ON, every other operation with it on for every second call (stdout is /dev/null here).
static unsigned wv_opcount = 0;
static inline bool wv_quiet(bool is_verify)
{
  ++wv_opcount;
  return is_verify ? false : (wv_opcount % 2 == 0);
}
static bool wv_null_input = false; // run the next operations with a NULL input handle (an input that could not be opened)
// seed: the r_buf string (without the terminating NUL; must not contain 0)
// what a caller passes as "file size" is only a progress value to the library: every second encryption passes 0
static unsigned wv_enc_count = 0;
// the seed text is the CALLER's buffer: when a driver sets this, every encryption is handed the same persistent buffer
// instead of a private copy (an operation that scribbles on it changes what the next one sees)
static std::vector<u8_t> *wv_shared_seed = NULL;
static inline OpResult wv_encrypt(const std::vector<u8_t> &P, std::vector<u8_t> key, int cm, int hm, std::vector<u8_t> seed, int T)
{
  MemFile in(P), out(std::vector<u8_t>(), "wb+");
  seed.push_back(0);
  if (wv_shared_seed)
  {
    if (wv_shared_seed->empty())
      *wv_shared_seed = seed;
    Settings st(cm, hm, wv_quiet(false));
    OpResult r;
    {
      runcrypt rc(in.f, out.f, key.data(), st, T);
      r.ret = rc.execute_encrypt((++wv_enc_count % 2) ? P.size() : 0, wv_shared_seed->data());
    }
    r.out = out.bytes();
    r.in_after = in.bytes();
    return r;
  }
  Settings st(cm, hm, wv_quiet(false));
  OpResult r;
  {
    runcrypt rc(in.f, out.f, key.data(), st, T);
    r.ret = rc.execute_encrypt((++wv_enc_count % 2) ? P.size() : 0, seed.data());
  }
  r.out = out.bytes();
  r.in_after = in.bytes();
  return r;
}
static inline OpResult wv_decrypt(const std::vector<u8_t> &C, std::vector<u8_t> key, int T)
{
  MemFile in(C), out(std::vector<u8_t>(), "wb+");
  Settings st(-1, -1, wv_quiet(false));
  OpResult r;
  {
    runcrypt rc(wv_null_input ? NULL : in.f, out.f, key.data(), st, T);
    r.ret = rc.execute_decrypt(C.size());
  }
  r.out = out.bytes();
  r.in_after = in.bytes();
  return r;
}
static inline OpResult wv_verify(const std::vector<u8_t> &C, std::vector<u8_t> key, int T)
{
  MemFile in(C), out(std::vector<u8_t>(), "wb+");
  Settings st(-1, -1, wv_quiet(true));
  OpResult r;
  {
    runcrypt rc(wv_null_input ? NULL : in.f, out.f, key.data(), st, T);
    r.ret = rc.execute_verify(C.size());
  }
  r.out = out.bytes();
  r.in_after = in.bytes();
  return r;
}
// decryption into a NON-SEEKABLE output (a pipe, as with -o /dev/stdout or a FIFO): must behave as into a file
static inline OpResult wv_decrypt_pipe(const std::vector<u8_t> &C, std::vector<u8_t> key, int T)
{
  OpResult r;
  r.ret = false;
  int pfd[2];
  if (pipe2(pfd, O_NONBLOCK))
    return r;
  MemFile in(C);
  FILE *out = fdopen(pfd[1], "wb");
  Settings st(-1, -1, wv_quiet(false));
  {
    runcrypt rc(in.f, out, key.data(), st, T);
    r.ret = rc.execute_decrypt(C.size());      // closes both streams
  }
  u8_t buf[4096];
  ssize_t n;
  while ((n = read(pfd[0], buf, sizeof buf)) > 0)
    r.out.insert(r.out.end(), buf, buf + n);
  close(pfd[0]);
  r.in_after = in.bytes();
  return r;
}
// run fn in a forked child with a time limit; returns 0 ok, else a description is emitted by the caller
// result: 0 = child exited 0; 1 = exited non-zero; 2 = killed by signal; 3 = timeout
template <class F>
static inline int wv_guarded(F fn, int timeout_s, int *detail)
{
  fflush(wv_out ? wv_out : stdout);
  pid_t pid = fork();
  if (pid == 0)
  {
    fn();
    fflush(wv_out ? wv_out : stdout);
    WV_EXIT(0);
  }
  int st = 0;
  for (int waited = 0; waited < timeout_s * 200; ++waited)
  {
    pid_t w = waitpid(pid, &st, WNOHANG);
    if (w == pid)
    {
      if (WIFEXITED(st))
      {
        *detail = WEXITSTATUS(st);
        return WEXITSTATUS(st) == 0 ? 0 : 1;
      }
      *detail = WTERMSIG(st);
      return 2;
    }
    usleep(5000);
  }
  kill(pid, SIGKILL);
  waitpid(pid, &st, 0);
  *detail = timeout_s;
  return 3;
}
static const char *wv_how[] = {"ok", "exit", "signal", "timeout"};
#endif
