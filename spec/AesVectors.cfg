
