CONSTANTS T = 3  N = 40  S = 32  Dir = "enc"  EofPeek = TRUE  Pad = 0
  Gate = TRUE  NotifyReady = TRUE  NotifyUpdate = TRUE  WaitLoop = TRUE  ReadyTest = FALSE  Spurious = FALSE  Unbounded = FALSE
  Loads <- MCLoads  DecPad <- MCDecPad
SPECIFICATION Spec
INVARIANTS TypeOK Exclusive NoUnderflow InOrder OutPrefix OutExact Quiescent LockDiscipline

