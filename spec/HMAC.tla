-------------------------------- MODULE HMAC --------------------------------
(***************************************************************************)
(* RFC 2104 HMAC over the three hashes wencry offers.  alg: 0 = SHA-1,     *)
(* 1 = MD5, 2 = SHA-256 (the numbering of wencry's hash-mode byte).        *)
(***************************************************************************)
EXTENDS Bytes
LOCAL S1 == INSTANCE SHA1
LOCAL M5 == INSTANCE MD5
LOCAL S2 == INSTANCE SHA256

HashAlgs == {0, 1, 2}
Hash(alg, m) == CASE alg = 0 -> S1!Digest(m) [] alg = 1 -> M5!Digest(m) [] alg = 2 -> S2!Digest(m)
HLen(alg)    == CASE alg = 0 -> 20 [] alg = 1 -> 16 [] alg = 2 -> 32
BlockLen     == 64

\* RFC 2104 section 2: K0 = key padded with zeros to the block length (hashed first
\* when longer than a block), H((K0 xor opad) || H((K0 xor ipad) || text))
K0(alg, key) == IF Len(key) > BlockLen THEN PadTo(Hash(alg, key), BlockLen, 0)
                ELSE PadTo(key, BlockLen, 0)
IPadBlock(alg, key) == XorBytes(K0(alg, key), Rep(54, BlockLen))
OPadBlock(alg, key) == XorBytes(K0(alg, key), Rep(92, BlockLen))
Mac(alg, key, text) ==
  Hash(alg, OPadBlock(alg, key) \o Hash(alg, IPadBlock(alg, key) \o text))

\* the tag comparison the format asks for: all HLen(alg) bytes equal
CmpTag(alg, stored, computed) == Take(stored, HLen(alg)) = computed
=============================================================================
