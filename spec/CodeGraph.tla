------------------------------ MODULE CodeGraph ------------------------------
(***************************************************************************)
(* The transition graph of the REAL pipeline code, explored exhaustively    *)
(* under the deterministic scheduler (harness/h_sched.cpp) and projected    *)
(* onto the variables of Pipeline.tla, turned into a TLA+ behaviour         *)
(* specification: a state is a node of the graph, a step follows one of     *)
(* its recorded edges.  TLC then decides ON THE CODE'S OWN STATE GRAPH:      *)
(*   - the property invariants of Pipeline (Exclusive, NoUnderflow,         *)
(*     InOrder, OutPrefix, OutExact, Quiescent) in every code state   (C14,  *)
(*     C03, C15)                                                            *)
(*   - no reachable code state without successor other than Done      (C04) *)
(*   - <>Done under strong fairness of every thread                   (C04) *)
(*   - StepOK: every code edge is a step of Pipeline's Next - the           *)
(*     implementation-level refinement (reported as spec drift, not as a    *)
(*     property violation, when it fails)                                   *)
(*   - Refines0 .. RefinesLast (MC_PipelineProj): the projection of the     *)
(*     code's behaviour onto one buffer is a behaviour of OneBuffer.tla -   *)
(*     binds the every-T argument of OneBuffer to the code (also a drift    *)
(*     note when it fails)                                                  *)
(***************************************************************************)
EXTENDS MC_PipelineProj, Json, IOUtils

Nodes == ndJsonDeserialize(IOEnv.NODES)
VARIABLE node
gvars == << vars, node >>

ToSet(q) == {q[i] : i \in 1..Len(q)}
Fn(arr) == [i \in Bufs |-> arr[i + 1]]
Rec(n) == Nodes[n + 1]
Holds(n) == LET s == Rec(n).s IN
  /\ st = Fn(s.st) /\ mtx = Fn(s.mtx)
  /\ cvR = [i \in Bufs |-> ToSet(s.cvR[i + 1])] /\ cvU = [i \in Bufs |-> ToSet(s.cvU[i + 1])]
  /\ buf = Fn(s.buf) /\ turn = s.turn /\ over = s.over /\ live = s.live
  /\ nload = s.nload /\ lstate = s.lstate /\ out = s.out /\ outlen = s.outlen
  /\ hist = Fn(s.hist) /\ pcw = Fn(s.pcw) /\ pcio = s.pcio /\ cur = Fn(s.cur)
  /\ born = s.born /\ nj = s.nj
HoldsNext(n) == LET s == Rec(n).s IN
  /\ st' = Fn(s.st) /\ mtx' = Fn(s.mtx)
  /\ cvR' = [i \in Bufs |-> ToSet(s.cvR[i + 1])] /\ cvU' = [i \in Bufs |-> ToSet(s.cvU[i + 1])]
  /\ buf' = Fn(s.buf) /\ turn' = s.turn /\ over' = s.over /\ live' = s.live
  /\ nload' = s.nload /\ lstate' = s.lstate /\ out' = s.out /\ outlen' = s.outlen
  /\ hist' = Fn(s.hist) /\ pcw' = Fn(s.pcw) /\ pcio' = s.pcio /\ cur' = Fn(s.cur)
  /\ born' = s.born /\ nj' = s.nj

GInit == node = 0 /\ Holds(0)
\* edges of scheduler thread t (0 = I/O thread, 1..T = workers)
GStep(t) == \E k \in 1..Len(Rec(node).succ) :
              /\ Rec(node).succ[k][1] = t
              /\ node' = Rec(node).succ[k][2] /\ HoldsNext(Rec(node).succ[k][2])
GTerminated == Done /\ Rec(node).succ = <<>> /\ UNCHANGED gvars
GNext == (\E t \in 0..T : GStep(t)) \/ GTerminated
GSpec == GInit /\ [][GNext]_gvars
GFairSpec == GSpec /\ \A t \in 0..T : SF_gvars(GStep(t))

\* the code starts in the specification's initial state
InitOK == node = 0 => Init
\* a node the explorer saw deadlock in is never a Done state (TLC's deadlock check reports it)
\* implementation-level refinement: every code edge is a Pipeline step
StepOK == [][Next]_vars
GTermination == <>Done
=============================================================================
