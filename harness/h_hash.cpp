// C07 driver: records digests computed by the real hash code through both entry points.
//   h_hash string <maxlen> <reps>      getStringHash over every length 0..maxlen
//   h_hash file <maxlen> <reps>        getFileHash through filebuffer64 (refill = WENCRY_VERIF_HBUF_SZ units)
//   h_hash big                         2^29-byte boundary of the bit counter, via a synthetic buffer64
#include "wv_json.h"
#include "hashmaster.h"
#include "hashbuffer.h"

struct wv_probe
{
  static std::vector<long long> chain(Hashmaster *h, int alg)
  {
    std::vector<long long> v;
    u32_t *p = alg == 0 ? ((sha1hash *)h)->h : alg == 1 ? ((md5hash *)h)->h : ((sha256hash *)h)->h;
    int n = alg == 0 ? 5 : alg == 1 ? 4 : 8;
    for (int i = 0; i < n; ++i)
    {
      v.push_back(p[i] >> 16);
      v.push_back(p[i] & 0xffff);
    }
    return v;
  }
};

static Hashmaster *mk(int alg)
{
  HashFactory hf;
  return hf.getHasher(hf.getType(alg));
}

// a buffer64 that delivers `units` 64-byte units of a fixed pattern and then a tail, and
// snapshots the chaining value right before it hands out the tail
struct synth_buffer : public buffer64
{
  unsigned long long units, given = 0;
  std::vector<u8_t> tail;
  Hashmaster *h;
  int alg;
  std::vector<long long> chain_before_tail;
  bool tail_given = false;
  u32_t read_buffer64(u8_t *block, const std::function<void(std::string, size_t)> &) override
  {
    if (given < units)
    {
      for (int i = 0; i < 64; ++i)
        block[i] = (u8_t)(given * 131 + i);
      ++given;
      return 64;
    }
    if (tail_given)
    {
      Ev("hash_error").str("what", "read after tail").emit();
      return 0;
    }
    tail_given = true;
    chain_before_tail = wv_probe::chain(h, alg);
    memcpy(block, wv_ptr(tail), tail.size());
    return tail.size();
  }
};

// a buffer64 that forwards to the real filebuffer64 and records every unit it hands to the hash
struct tracing_buffer : public buffer64
{
  filebuffer64 *inner;
  std::string reads = "[";
  int nreads = 0;
  u32_t read_buffer64(u8_t *block, const std::function<void(std::string, size_t)> &pl) override
  {
    u32_t k = inner->read_buffer64(block, pl);
    reads += nreads++ ? ",[" : "[";
    for (u32_t i = 0; i < k && i < 64; ++i)
      reads += (i ? "," : "") + std::to_string((int)block[i]);
    reads += "]";
    if (k > 64)
      reads += ",[\"oversize\"]";
    return k;
  }
};

int main(int argc, char **argv)
{
  std::string mode = argc > 1 ? argv[1] : "string";
  int maxlen = argc > 2 ? atoi(argv[2]) : 200;
  int reps = argc > 3 ? atoi(argv[3]) : 1;
  Rng rng(wv_seed() * 1000003 + mode.size());
  long id = 0;
  if (mode == "string")
  {
    for (int alg = 0; alg < 3; ++alg)
    {
      // a hasher object that lives across all messages (wencry re-uses one for the IV chain): its
      // digest of message i must not depend on message i-1
      Hashmaster *shared = mk(alg);
      for (int n = 0; n <= maxlen; ++n)
      {
        auto m = wv_content(rng, n, 1);
        u8_t out[32];
        shared->getStringHash(wv_ptr(m), n, out);
        Ev("hash").i("id", id++).i("alg", alg).str("entry", "string-shared-object").i("n", n).b("prefix", NULL, 0).b("msg", m).b("out", out, shared->gethlen()).emit();
        if (n % 7 == 3)
        { // and after a long message, whose length field has non-zero high bytes
          auto big = wv_content(rng, 700 + n, 1);
          shared->getStringHash(big.data(), big.size(), out);
          auto m2 = wv_content(rng, 56 + n % 7, 1);
          shared->getStringHash(m2.data(), m2.size(), out);
          Ev("hash").i("id", id++).i("alg", alg).str("entry", "string-shared-object").i("n", (int)m2.size()).b("prefix", NULL, 0).b("msg", m2).b("out", out, shared->gethlen()).emit();
        }
      }
      delete shared;
    }
    for (int alg = 0; alg < 3; ++alg)
      for (int n = 0; n <= maxlen; ++n)
        for (int rep = 0; rep < reps; ++rep)
        {
          auto m = wv_content(rng, n, rep == 0 ? 0 : 1);
          Hashmaster *h = mk(alg);
          u8_t out[32];
          h->getStringHash(wv_ptr(m), n, out);
          Ev("hash").i("id", id++).i("alg", alg).str("entry", "string").i("n", n).b("prefix", NULL, 0).b("msg", m).b("out", out, h->gethlen()).emit();
          // a hasher object is reused by wencry (IV chain): hash again with the same object
          if (n % 16 == 0)
          {
            h->getStringHash(wv_ptr(m), n, out);
            Ev("hash").i("id", id++).i("alg", alg).str("entry", "string-reuse").i("n", n).b("prefix", NULL, 0).b("msg", m).b("out", out, h->gethlen()).emit();
          }
          delete h;
        }
  }
  else if (mode == "file")
  {
#ifndef WENCRY_VERIF_HBUF_SZ
#define WENCRY_VERIF_HBUF_SZ 0
#endif
    for (int alg = 0; alg < 3; ++alg)
      for (int n = 0; n <= maxlen; ++n)
        for (int pre = 0; pre < 2; ++pre)
          for (int rep = 0; rep < reps; ++rep)
          {
            auto m = wv_content(rng, n, rep == 0 ? 0 : 1);
            auto px = rng.bytes(64);
            // the stream is positioned `skip` bytes into the file: hashing covers [skip, EOF)
            int skip = (n + rep) % 3 == 0 ? 5 : 0;
            std::vector<u8_t> filebytes = rng.bytes(skip);
            filebytes.insert(filebytes.end(), m.begin(), m.end());
            FILE *f = wv_memfile(filebytes);
            fseek(f, skip, SEEK_SET);
            Hashmaster *h = mk(alg);
            u8_t out[32];
            filebuffer64 *fb = new filebuffer64(f, [](std::string, size_t) {}, pre ? px.data() : NULL);
            h->getFileHash(fb, out);
            delete fb;
            fclose(f);
            Ev("hash").i("id", id++).i("alg", alg).str("entry", "file").i("hbuf", WENCRY_VERIF_HBUF_SZ).i("n", n).b("prefix", px.data(), pre ? 64 : 0).b("msg", m).b("out", out, h->gethlen()).emit();
            delete h;
          }
  }
  else if (mode == "buftrace")
  {
#ifndef WENCRY_VERIF_HBUF_SZ
#define WENCRY_VERIF_HBUF_SZ 0
#endif
    for (int n = 0; n <= maxlen; ++n)
      for (int pre = 0; pre < 2; ++pre)
      {
        int alg = (n + pre) % 3;
        auto m = wv_content(rng, n, 1);
        auto px = rng.bytes(64);
        FILE *f = wv_memfile(m);
        Hashmaster *h = mk(alg);
        u8_t out[32];
        tracing_buffer tb;
        tb.inner = new filebuffer64(f, [](std::string, size_t) {}, pre ? px.data() : NULL);
        h->getFileHash(&tb, out);
        delete tb.inner;
        fclose(f);
        Ev("hbuf").i("id", id++).i("hbuf", WENCRY_VERIF_HBUF_SZ).i("n", n).i("pre", pre).b("prefix", px.data(), pre ? 64 : 0).b("msg", m).raw("reads", tb.reads + "]").emit();
        delete h;
      }
  }
  else if (mode == "big")
  {
    // messages of 2^29 - 64 + t, 2^29 + t bytes (t in {0, 1, 55, 56, 63}): the bit length crosses 2^32
    // "big mid": 8 KiB and 2 MiB instead - the messages at which the third and fourth byte of the bit length
    // become non-zero (cheap enough for the quick tier)
    const bool mid = argc > 2 && std::string(argv[2]) == "mid";
    const unsigned long long U = mid ? (1ULL << 13) / 64 : (1ULL << 29) / 64;
    const unsigned long long unit_counts[] = {U - 1, U, mid ? 256 * U : 2 * U};
    for (int alg = 0; alg < 3; ++alg)
      for (unsigned long long units : unit_counts)
        for (int t : {0, 56})
        {
          if (units == unit_counts[2] && t == 56)
            continue;
          synth_buffer sb;
          sb.units = units;
          sb.tail = wv_content(rng, t, 1);
          Hashmaster *h = mk(alg);
          sb.h = h;
          sb.alg = alg;
          u8_t out[32];
          h->getFileHash(&sb, out);
          unsigned long long n = units * 64 + t;
          Ev("bighash").i("id", id++).i("alg", alg).ints("nl", {(long long)((n >> 48) & 0xffff), (long long)((n >> 32) & 0xffff), (long long)((n >> 16) & 0xffff), (long long)(n & 0xffff)}).ints("chain", sb.chain_before_tail).b("tail", sb.tail).b("out", out, h->gethlen()).emit();
          delete h;
        }
  }
  return 0;
}
