CONSTANTS MaxN = 130  HBufs = {2}  LenBeforeExtra = FALSE  CounterWrap = 0
SPECIFICATION Spec
INVARIANTS LengthExact
CHECK_DEADLOCK FALSE
