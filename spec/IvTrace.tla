------------------------------- MODULE IvTrace -------------------------------
(***************************************************************************)
(* C18: on recorded encryptions of multi-chunk plaintexts                  *)
(*  StoredIVsDistinct : the T stored IVs are pairwise different            *)
(*  SeedDependent     : the stored IVs are the SHA-1 chain of the seed     *)
(*  StreamsDistinct   : decided by identification - the body is recomputed *)
(*      under both hypotheses  StreamIV(j) = iv[0]  (finding D8) and       *)
(*      StreamIV(j) = iv[j];  a body matching only the first is reported   *)
(*      as "KNOWN-D8", matching the second is "ok", matching neither is a  *)
(*      violation.  The symptoms (equal ciphertext chunks for equal        *)
(*      plaintext chunks of different streams; keystream reuse in CTR/OFB) *)
(*      are evaluated as well and must be consistent with the hypothesis.  *)
(***************************************************************************)
EXTENDS Naturals, Sequences, TLC, Json, IOUtils, Bytes
LOCAL F == INSTANCE FileFormat
LOCAL H == INSTANCE HMAC
Events == ndJsonDeserialize(IOEnv.TRACE)
VARIABLES l, nbad

StoredIVs(ev) == [i \in 1..ev.T |-> Slice(ev.C, 48 + 20 * (i - 1), 20)]
BodyOf(ev) == Drop(ev.C, F!TextMark(ev.T))
NChunks(ev) == (Len(BodyOf(ev)) + ev.S - 1) \div ev.S
Chunk(bytes, j0, S) == SubSeq(bytes, j0 * S + 1, IF (j0 + 1) * S < Len(bytes) THEN (j0 + 1) * S ELSE Len(bytes))
\* two full chunks of different streams with equal plaintext and equal ciphertext
EqualChunks(ev) ==
  \E i, j \in 0..(NChunks(ev) - 1) :
     /\ i < j /\ (i % ev.T) # (j % ev.T) /\ (j + 1) * ev.S <= ev.n
     /\ Chunk(ev.P, i, ev.S) = Chunk(ev.P, j, ev.S)
     /\ Chunk(BodyOf(ev), i, ev.S) = Chunk(BodyOf(ev), j, ev.S)
\* CTR/OFB: chunks of different streams at the same position in their stream enciphered with one keystream
KeystreamReuse(ev) ==
  ev.cm \in {2, 4} /\
  \E i, j \in 0..(NChunks(ev) - 1) :
     /\ i < j /\ (i % ev.T) # (j % ev.T) /\ (i \div ev.T) = (j \div ev.T) /\ (j + 1) * ev.S <= ev.n
     /\ XorBytes(Chunk(BodyOf(ev), i, ev.S), Chunk(BodyOf(ev), j, ev.S))
          = XorBytes(Chunk(ev.P, i, ev.S), Chunk(ev.P, j, ev.S))

Pkcs7AndBody(ev, per) == F!Body(TRUE, F!Pkcs7(ev.P), ev.key, ev.cm, StoredIVs(ev), ev.T, ev.S, per)

Why(ev) ==
  IF ev.e = "abort" THEN <<"operation did not return normally", ev.how>>
  ELSE IF ev.e # "rt" THEN <<"unknown event">>
  ELSE LET ivs == StoredIVs(ev) IN
  IF \E i, j \in 1..ev.T : i < j /\ ivs[i] = ivs[j] THEN <<"two stored IVs are equal">>
  ELSE IF ivs # F!IVs(ev.seed, ev.T) THEN <<"stored IVs are not the SHA-1 chain of the seed">>
  ELSE IF ev.T = 1 \/ ev.cm = 0 \/ NChunks(ev) < 2 THEN <<"ok">>
  ELSE LET shared == Pkcs7AndBody(ev, FALSE)  own == Pkcs7AndBody(ev, TRUE)  body == BodyOf(ev) IN
       IF body = own /\ body # shared THEN
            (IF EqualChunks(ev) \/ KeystreamReuse(ev) THEN <<"symptom inconsistent with per-stream IVs">> ELSE <<"ok">>)
       ELSE IF body = shared /\ body # own THEN <<"KNOWN-D8 every stream starts from IV 0">>
       ELSE IF body = shared /\ body = own THEN <<"ok">>
       ELSE <<"body matches neither IV hypothesis">>

Init == l = 1 /\ nbad = 0
Next == /\ l <= Len(Events)
        /\ LET ev == Events[l]  w == Why(ev)
           IN /\ IF w = <<"ok">> THEN TRUE ELSE PrintT(<<"BAD", l, ev.id, w>>)
              /\ nbad' = nbad + (IF w = <<"ok">> THEN 0 ELSE 1)
        /\ l' = l + 1
Finished == (l = Len(Events) + 1) => PrintT(<<"DONE", Len(Events), nbad>>)
Spec == Init /\ [][Next]_<<l, nbad>>
=============================================================================
