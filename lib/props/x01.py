"""X01 (extra, outside the listed properties) - the interactive prompt mode follows Dialogue.tla.
C17 excludes the prompt mode, so nothing found here is a violation of a listed property: a rejected run is
printed as "FINDING extra=X01 ..." and the command is not registered in MANIFEST.json.  It exists because the
specification is meant to cover the system, not only the list (DESIGN 10.8)."""
import concurrent.futures as cf, json, os, re, resource, shutil, subprocess, tempfile
import wv
from props import c17
PID = "X01"
LINES = {"fMissing": "nofile.bin", "fPlain": "F.bin", "fEnc": "E.wenc", "kGood": c17.K, "kWrong": c17.W, "kBad": "tooshort", "c0": "0", "c2": "2", "c7": "7", "cabc": "abc",
         "h1": "1", "h5": "5", "habc": "xyz", "seed": "randomchars", "name": "Out.bin"}
MARK = [("mode?", b"Need encrypt, verify"), ("file?", b"File name:"), ("notfound", b"File not found"), ("filesize", b"file size:"), ("newkey?", b"Need generate a new key"),
        ("key?", b"Enter 128 bits"), ("keyagain", b"Sorry, please enter 128 bits"), ("outfile", b"Output File:"), ("keyis", b"Key is:"), ("cmode?", b"Select a crypt mode"),
        ("modeagain", b"Sorry, please enter a valid mode"), ("cmodeis", b"Cmode is :"), ("hmode?", b"Select a hash mode"), ("hmodeis", b"Hmode is :"),
        ("seed?", b"Please input some random characters"), ("newname?", b"Need a new name for decrypted file"), ("entername", b"Enter new name"), ("help", b"--encode")]


def prompts_of(out):
    found = []
    for name, pat in MARK:
        for m in re.finditer(re.escape(pat), out):
            found.append((m.start(), name))
    found.sort()
    return [n for _, n in found]


def one(exe, template, root, idx, vec):
    d = os.path.join(root, "d%05d" % idx)
    shutil.copytree(template, d)
    script = vec["script"]
    stdin = "".join(LINES.get(t, t) + "\n" for t in script).encode()
    env = dict(os.environ); env.update(wv.ASAN_ENV)
    to = False
    # a dialogue that never ends prints without bound: the output goes to a file with a size limit
    # (SIGXFSZ then counts as "did not terminate"), and only its first 200 kB are looked at
    op_ = os.path.join(root, "out%05d.txt" % idx)
    with open(op_, "wb") as fo:
        try:
            r = subprocess.run([exe], cwd=d, input=stdin, stdout=fo, stderr=subprocess.STDOUT, timeout=20, env=env,
                               preexec_fn=lambda: resource.setrlimit(resource.RLIMIT_FSIZE, (2 << 20, 2 << 20)))
            rc = r.returncode
        except subprocess.TimeoutExpired:
            rc, to = 0, True
    with open(op_, "rb") as fi:
        out = fi.read(200000)
    os.unlink(op_)
    if rc == -25:
        rc, to = 0, True
    if b"AddressSanitizer" in out or b"runtime error:" in out:
        rc = -99
    op = {"e": "e", "E": "e", "d": "d", "D": "d", "v": "v"}.get(script[0], "x")
    ok, note = True, ""
    if rc == 0 and not to:
        inp = "F.bin" if "fPlain" in script else "E.wenc"
        if op == "e":
            m = re.search(rb"Key is:\s*(\S{24})", out)
            outp = inp + ".wenc"
            if not m or not os.path.exists(os.path.join(d, outp)):
                ok, note = False, "no key printed / no output file " + outp
            else:
                r2, o2, _ = c17.run_bin(exe, ["-d", "-i", outp, "-o", "back.bin", "-k", m.group(1).decode(), "-n"], d)
                back = open(os.path.join(d, "back.bin"), "rb").read() if os.path.exists(os.path.join(d, "back.bin")) else None
                if r2 != 0 or back != open(os.path.join(template, inp), "rb").read():
                    ok, note = False, "the output does not decrypt back to the input with the printed key (rc=%s)" % r2
        elif op == "d":
            outp = "Out.bin" if "name" in script else inp + ".wdec"
            p = os.path.join(d, outp)
            if not os.path.exists(p) or open(p, "rb").read() != c17.PLAIN:
                ok, note = False, "decrypted output %s is not the original plaintext" % outp
    shutil.rmtree(d, ignore_errors=True)
    return {"e": "dlg", "id": idx, "script": script, "prompts": prompts_of(out)[:40], "rc": rc if rc >= 0 else 0, "sig": -rc if rc < 0 else 0, "timeout": 1 if to else 0,
            "diag": 1 if c17.DIAG.search(out) else 0, "effect": 1 if ok else 0, "effect_note": note, "out_tail": out[-300:].decode(errors="replace")}


def run(tier, replay):
    res = wv.Result(PID, "model_checking", tier)
    wv.design_runs(res, [("Dialogue", "MC_Dialogue", True)])
    exe = c17.binary()
    d = os.path.join(wv.RUN, PID); os.makedirs(d, exist_ok=True)
    out = os.path.join(d, "dialogues.json")
    r = wv.tlc("DialogueVectors", env={"OUT": out}, workers=1, timeout=600)
    if "DIALOGUES" not in r["out"] or not os.path.exists(out):
        raise wv.Infra("DialogueVectors.tla failed:\n" + r["out"][-2500:])
    allv = json.load(open(out))
    if replay:
        allv = [{"script": json.load(open(replay))["replay"]["script"]}]
    root = tempfile.mkdtemp(prefix="wvdlg.", dir="/var/tmp")
    try:
        template = c17.make_template(exe, root)
        with cf.ThreadPoolExecutor(14) as ex:
            events = list(ex.map(lambda iv: one(exe, template, root, iv[0], iv[1]), enumerate(allv)))
    finally:
        shutil.rmtree(root, ignore_errors=True)
    bad, st = wv.validate_trace("DialogueTrace", events, name=PID + "/tlc")
    res.cov.update({"dialogues_from_spec": len(allv), "traces_validated_against_impl": len(events), "evaluations": len(events),
                    "rule": "Dialogue.tla: the prompt mode as a state machine over the lines typed (one action per prompt; answer classes incl. wrong answers that are asked again). TLC checks TypeOK, Complete, OneLinePerQuestion and termination, and DialogueVectors.tla emits every complete run with at most one wrong answer per prompt. The driver feeds each script to the real binary on stdin in a scratch directory, extracts the prompts it printed in order, the exit status and the effect (the encrypted file decrypts back with the printed key; the decrypted file is the plaintext); DialogueTrace.tla replays the script through the machine and compares.",
                    "validator_states": st["states"], "exhaustive": True})
    for e, why in bad:
        res.violation("prompt mode, lines %s -> rc=%s sig=%s: %s | %s" % (e["script"], e["rc"], e["sig"], why[:400], e["out_tail"][-160:].replace("\n", " ")), {"script": e["script"]})
    res.assumptions += ["outside the listed properties (C17 excludes the prompt mode); answers are one word per line; end of input in the middle of a dialogue is not modelled"]
    return res.finish()
