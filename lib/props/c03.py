"""C03 - see pipe.py"""
from props import pipe


def run(tier, replay):
    return pipe.run("C03", tier, replay)
