---- MODULE RoundTrip_TTrace_1790447396 ----
EXTENDS Sequences, TLCExt, RoundTrip, Toolbox, Naturals, TLC

_expression ==
    LET RoundTrip_TEExpression == INSTANCE RoundTrip_TEExpression
    IN RoundTrip_TEExpression!expression
----

_trace ==
    LET RoundTrip_TETrace == INSTANCE RoundTrip_TETrace
    IN RoundTrip_TETrace!trace
----

_inv ==
    ~(
        TLCGet("level") = Len(_TETrace)
        /\
        phase = ("done")
        /\
        result = ([bytes |-> <<>>, status |-> "hang"])
        /\
        cipher = (<<<<"E", 0, 0, <<1, 2, 3, 4, 5, 6, 7, 8, 9, 10, 11, 12, 13, 14, 15, 16>>>>, <<"E", 0, 1, <<1016, 1016, 1016, 1016, 1016, 1016, 1016, 1016, 1016, 1016, 1016, 1016, 1016, 1016, 1016, 1016>>>>>>)
        /\
        S = (32)
        /\
        T = (2)
        /\
        n = (16)
    )
----

_init ==
    /\ S = _TETrace[1].S
    /\ T = _TETrace[1].T
    /\ n = _TETrace[1].n
    /\ phase = _TETrace[1].phase
    /\ result = _TETrace[1].result
    /\ cipher = _TETrace[1].cipher
----

_next ==
    /\ \E i,j \in DOMAIN _TETrace:
        /\ \/ /\ j = i + 1
              /\ i = TLCGet("level")
        /\ S  = _TETrace[i].S
        /\ S' = _TETrace[j].S
        /\ T  = _TETrace[i].T
        /\ T' = _TETrace[j].T
        /\ n  = _TETrace[i].n
        /\ n' = _TETrace[j].n
        /\ phase  = _TETrace[i].phase
        /\ phase' = _TETrace[j].phase
        /\ result  = _TETrace[i].result
        /\ result' = _TETrace[j].result
        /\ cipher  = _TETrace[i].cipher
        /\ cipher' = _TETrace[j].cipher

\* Uncomment the ASSUME below to write the states of the error trace
\* to the given file in Json format. Note that you can pass any tuple
\* to `JsonSerialize`. For example, a sub-sequence of _TETrace.
    \* ASSUME
    \*     LET J == INSTANCE Json
    \*         IN J!JsonSerialize("RoundTrip_TTrace_1790447396.json", _TETrace)

=============================================================================

 Note that you can extract this module `RoundTrip_TEExpression`
  to a dedicated file to reuse `expression` (the module in the 
  dedicated `RoundTrip_TEExpression.tla` file takes precedence 
  over the module `RoundTrip_TEExpression` below).

---- MODULE RoundTrip_TEExpression ----
EXTENDS Sequences, TLCExt, RoundTrip, Toolbox, Naturals, TLC

expression == 
    [
        \* To hide variables of the `RoundTrip` spec from the error trace,
        \* remove the variables below.  The trace will be written in the order
        \* of the fields of this record.
        S |-> S
        ,T |-> T
        ,n |-> n
        ,phase |-> phase
        ,result |-> result
        ,cipher |-> cipher
        
        \* Put additional constant-, state-, and action-level expressions here:
        \* ,_stateNumber |-> _TEPosition
        \* ,_SUnchanged |-> S = S'
        
        \* Format the `S` variable as Json value.
        \* ,_SJson |->
        \*     LET J == INSTANCE Json
        \*     IN J!ToJson(S)
        
        \* Lastly, you may build expressions over arbitrary sets of states by
        \* leveraging the _TETrace operator.  For example, this is how to
        \* count the number of times a spec variable changed up to the current
        \* state in the trace.
        \* ,_SModCount |->
        \*     LET F[s \in DOMAIN _TETrace] ==
        \*         IF s = 1 THEN 0
        \*         ELSE IF _TETrace[s].S # _TETrace[s-1].S
        \*             THEN 1 + F[s-1] ELSE F[s-1]
        \*     IN F[_TEPosition - 1]
    ]

=============================================================================



Parsing and semantic processing can take forever if the trace below is long.
 In this case, it is advised to uncomment the module below to deserialize the
 trace from a generated binary file.

\*
\*---- MODULE RoundTrip_TETrace ----
\*EXTENDS IOUtils, RoundTrip, TLC
\*
\*trace == IODeserialize("RoundTrip_TTrace_1790447396.bin", TRUE)
\*
\*=============================================================================
\*

---- MODULE RoundTrip_TETrace ----
EXTENDS RoundTrip, TLC

trace == 
    <<
    ([phase |-> "start",result |-> [bytes |-> <<>>, status |-> "none"],cipher |-> <<>>,S |-> 32,T |-> 2,n |-> 16]),
    ([phase |-> "encrypted",result |-> [bytes |-> <<>>, status |-> "none"],cipher |-> <<<<"E", 0, 0, <<1, 2, 3, 4, 5, 6, 7, 8, 9, 10, 11, 12, 13, 14, 15, 16>>>>, <<"E", 0, 1, <<1016, 1016, 1016, 1016, 1016, 1016, 1016, 1016, 1016, 1016, 1016, 1016, 1016, 1016, 1016, 1016>>>>>>,S |-> 32,T |-> 2,n |-> 16]),
    ([phase |-> "done",result |-> [bytes |-> <<>>, status |-> "hang"],cipher |-> <<<<"E", 0, 0, <<1, 2, 3, 4, 5, 6, 7, 8, 9, 10, 11, 12, 13, 14, 15, 16>>>>, <<"E", 0, 1, <<1016, 1016, 1016, 1016, 1016, 1016, 1016, 1016, 1016, 1016, 1016, 1016, 1016, 1016, 1016, 1016>>>>>>,S |-> 32,T |-> 2,n |-> 16])
    >>
----


=============================================================================

---- CONFIG RoundTrip_TTrace_1790447396 ----
CONSTANTS
    Sizes = { 32 }
    Threads = { 2 }
    EofPeek = FALSE

INVARIANT
    _inv

CHECK_DEADLOCK
    \* CHECK_DEADLOCK off because of PROPERTY or INVARIANT above.
    FALSE

INIT
    _init

NEXT
    _next

CONSTANT
    _TETrace <- _trace

ALIAS
    _expression
=============================================================================
\* Generated on Sat Sep 26 18:29:58 UTC 2026