---------------------------- MODULE PipelineTrace ----------------------------
(***************************************************************************)
(* Trace validation of the pipeline running with the PRODUCTION            *)
(* std::mutex / condition_variable / thread under OS schedules             *)
(* (harness/h_rt.cpp): every recorded execution must be a behaviour of     *)
(* Pipeline.tla.                                                           *)
(*                                                                         *)
(* What is logged: one event per WV_POINT (and per block transformation),  *)
(* with a global sequence number, the thread, the point's tag, and - for   *)
(* the points inside a critical section - the state word read under the    *)
(* lock.  Lock acquisitions, condition waits and wake-ups are NOT logged:  *)
(* they are the silent steps TLC infers.                                   *)
(*                                                                         *)
(* Grain of atomicity.  A thread's step ends at its next point, but a      *)
(* mutex it releases on the way becomes free earlier, so another thread's  *)
(* event can carry a smaller sequence number than the event that ends the  *)
(* releasing step.  Each thread may therefore run AHEAD of the trace by    *)
(* one observable arrival (variable ahead): its step is taken when needed, *)
(* its event is consumed later and only confirmed.                         *)
(* Several executions are concatenated with "reset" events.                *)
(***************************************************************************)
EXTENDS MC_Pipeline, Json, IOUtils
Events == ndJsonDeserialize(IOEnv.TRACE)
VARIABLES l, ahead
tvars == << vars, l, ahead >>

ObsW == {"g1", "wr1", "su1", "ge", "cry", "chk"}
ObsIO == {"wu1", "sr1", "bu", "ti", "ld0", "ld1", "ex0", "ex1"}
PcOfTag(t, tag) ==
  IF t = IO THEN (CASE tag = "wu" -> {"wu1"} [] tag = "sr" -> {"sr1"} [] OTHER -> {tag})
  ELSE (CASE tag = "wr" -> {"g1", "wr1"} [] tag = "su" -> {"su1"} [] OTHER -> {tag})
PcNow(t) == IF t = IO THEN pcio ELSE pcw[t]
Observable(t, pc) == IF t = IO THEN pc \in ObsIO ELSE pc \in ObsW
StepOf(t) == IF t = IO THEN IOThread ELSE Worker(t)
StNum(s) == CASE s = "EMPTY" -> 0 [] s = "UPDATING" -> 1 [] s = "READY" -> 2 [] s = "INV" -> 3

\* what a logged event asserts about the state it was taken in
Bind(ev, t) ==
  /\ (ev.st >= 0 => IF t = IO THEN StNum(st'[turn']) = ev.st ELSE StNum(st'[t]) = ev.st)
  /\ (ev.tag = "ld1" => (CASE lstate' = "FULL" -> 0 [] lstate' = "FINAL" -> 1 [] OTHER -> 2) = ev.arg)
  /\ (ev.tag = "ex1" => outlen' = ev.k)
  /\ (ev.tag = "cry" /\ ev.k >= 0 => buf'[t].data[cur'[t]].k = ev.k)

TInit == Init /\ l = 1 /\ ahead = [t \in Threads |-> "none"] /\ TLCSet(1, 0)

\* a thread takes a step now; if the step lands on an observable point the arrival is remembered
\* until its event is consumed (at most one such arrival per thread)
Advance(t) ==
  /\ ahead[t] = "none"
  /\ StepOf(t)
  /\ LET pc == IF t = IO THEN pcio' ELSE pcw'[t] IN
     ahead' = [ahead EXCEPT ![t] = IF Observable(t, pc) THEN pc ELSE "none"]
  /\ l' = l
\* consume the next event of the trace: the thread either arrives right now or had arrived already
Consume ==
  /\ l <= Len(Events) /\ Events[l].e = "p"
  /\ LET ev == Events[l]  t == ev.th IN
     /\ ev.tag # "begin"
     /\ \/ /\ ahead[t] \in PcOfTag(t, ev.tag)
           /\ UNCHANGED vars /\ ahead' = [ahead EXCEPT ![t] = "none"]
           /\ (ev.st >= 0 => IF t = IO THEN StNum(st[turn]) = ev.st ELSE StNum(st[t]) = ev.st)
        \/ /\ ahead[t] = "none"
           /\ StepOf(t)
           /\ (IF t = IO THEN pcio' ELSE pcw'[t]) \in PcOfTag(t, ev.tag)
           /\ Bind(ev, t)
           /\ ahead' = ahead
  /\ l' = l + 1
SkipBegin == /\ l <= Len(Events) /\ Events[l].e = "p" /\ Events[l].tag = "begin"
             /\ l' = l + 1 /\ UNCHANGED << vars, ahead >>
\* between executions: the previous one must have terminated and written the expected output
Reset == /\ l <= Len(Events) /\ Events[l].e = "reset"
         /\ (l = 1 \/ (Done /\ out = Expected /\ \A t \in Threads : ahead[t] = "none"))
         /\ l' = l + 1 /\ ahead' = [t \in Threads |-> "none"]
         /\ st' = [i \in Bufs |-> "EMPTY"] /\ mtx' = [i \in Bufs |-> NoOne]
         /\ cvR' = [i \in Bufs |-> {}] /\ cvU' = [i \in Bufs |-> {}] /\ buf' = [i \in Bufs |-> EmptyBuf]
         /\ turn' = 0 /\ over' = FALSE /\ live' = T /\ nload' = 1 /\ lstate' = "NODATA"
         /\ out' = <<>> /\ outlen' = 0 /\ hist' = [i \in Bufs |-> 0] /\ pcw' = [i \in Bufs |-> "st"]
         /\ pcio' = "sp" /\ cur' = [i \in Bufs |-> 0] /\ born' = 0 /\ nj' = 0
Finish == /\ l <= Len(Events) /\ Events[l].e = "end"
          /\ Done /\ out = Expected /\ outlen = ExpectedLen
          /\ l' = l + 1 /\ UNCHANGED << vars, ahead >>
TNext == Consume \/ SkipBegin \/ Reset \/ Finish \/ (\E t \in Threads : Advance(t))
TSpec == TInit /\ [][TNext]_tvars

\* acceptance: some behaviour of Pipeline explains the whole recorded trace
NotAccepted == l <= Len(Events)
\* the property formulas hold in every state the validation passes through
TraceProps == Exclusive /\ NoUnderflow /\ InOrder /\ OutPrefix
TracePropsC14 == Exclusive /\ NoUnderflow /\ InOrder
TracePropsC03 == OutPrefix
\* progress marker for diagnosing a rejection: the longest matched prefix
Progress == TLCSet(1, IF TLCGet(1) < l THEN l ELSE TLCGet(1))
ReportProgress == PrintT(<<"MATCHED", TLCGet(1) - 1, Len(Events)>>)
=============================================================================
