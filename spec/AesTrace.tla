------------------------------- MODULE AesTrace ------------------------------
(***************************************************************************)
(* C09: the implementation's tables against their algebraic definitions    *)
(* (exhaustively) and recorded single-block calls against FIPS-197.        *)
(***************************************************************************)
EXTENDS Naturals, Sequences, TLC, Json, IOUtils, Bytes
LOCAL A == INSTANCE AES128
Events == ndJsonDeserialize(IOEnv.TRACE)
VARIABLES l, nbad

\* powers of the generator {03}: Pow3[i+1] = 3^i for i = 0..511
Pow3 == FoldLeft(LAMBDA acc, i : Append(acc, A!GMul(acc[Len(acc)], 3)), <<1>>, Iota(1, 511))
Rcon == FoldLeft(LAMBDA acc, i : Append(acc, A!XTime(acc[Len(acc)])), <<1>>, Iota(2, 10))

TablesWhy(ev) ==
  IF \E a \in 0..255 : ev.sbox[a + 1] # A!SBox[a] THEN "s_box differs from inverse+affine definition"
  ELSE IF \E a \in 0..255 : ev.rsbox[a + 1] # A!InvSBox[a] THEN "rs_box is not the inverse S-box"
  \* indices above 238 + 254 = 492 cannot be formed by Gmul(u, v) with the exponents in use
  ELSE IF \E i \in 0..492 : ev.alog[i + 1] # Pow3[i + 1] THEN "Alogtable is not the table of powers of {03}"
  ELSE IF \E v \in 1..255 : ev.alog[ev.log[v + 1] + 1] # v THEN "Logtable is not the discrete logarithm"
  ELSE IF \E r \in 1..10 : ev.rc[r + 1] # Rcon[r] THEN "round constants differ from x^(r-1)"
  ELSE IF \E k \in 1..7 : \E v \in 0..255 :
            ev.gmul[k][v + 1] # A!GMul(Pow3[ev.us[k] + 1], v) THEN "a Gmul product differs from GF(2^8) multiplication"
  ELSE IF <<Pow3[1], Pow3[2], Pow3[26], Pow3[105], Pow3[200], Pow3[224], Pow3[239]>> # <<1, 3, 2, 11, 9, 14, 13>>
       THEN "the exponents used by the round functions are not the logs of 01 03 02 0b 09 0e 0d"
  ELSE "ok"

Why(ev) ==
  IF ev.e = "tables" THEN TablesWhy(ev)
  ELSE IF ev.e = "enc" THEN (IF ev.out = A!Cipher(ev.key, ev.in) THEN "ok" ELSE "encryption differs from FIPS-197 Cipher")
  ELSE IF ev.e = "dec" THEN (IF ev.out = A!InvCipher(ev.key, ev.in) THEN "ok" ELSE "decryption differs from FIPS-197 InvCipher")
  ELSE "unknown event"

Init == l = 1 /\ nbad = 0
Next == /\ l <= Len(Events)
        /\ LET ev == Events[l]  w == Why(ev)
           IN /\ IF w = "ok" THEN TRUE ELSE PrintT(<<"BAD", l, ev.id, w>>)
              /\ nbad' = nbad + (IF w = "ok" THEN 0 ELSE 1)
        /\ l' = l + 1
Finished == (l = Len(Events) + 1) => PrintT(<<"DONE", Len(Events), nbad>>)
Spec == Init /\ [][Next]_<<l, nbad>>
=============================================================================
