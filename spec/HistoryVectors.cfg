
