// File-level driver (C05 tamper, C06 wrong key, C11 arbitrary input, C12 verify<=>decrypt, C13 crash points):
// runs the real execute_verify / execute_decrypt on generated files and records verdicts and output.
//   h_file tamper <T> <n> <cm> <hm> <full 0|1>
//   h_file keys   <T> <n> <cm> <hm> <nrandom>
//   h_file garbage <T> <count> [vector-file]
//   h_file crash  <T> <n> <cm> <hm> <unbuffered 0|1>
// Cases run in forked batches (a crash or hang of the code under test is an outcome, not the end of the run).
#include "wv_ops.h"
#include <functional>
#include <set>
#include <algorithm>

struct Case
{
  std::string cls, kind;
  long pos = -1, val = -1;
  int T;
  std::vector<u8_t> key, C;
  // the authentic file this case derives from (empty = none)
  std::vector<u8_t> oP, oKey, oC;
};
static long g_id = 0;
static void run_case(const Case &c, long id)
{
  wv_null_input = c.cls == "nullinput";
  OpResult v = wv_verify(c.C, c.key, c.T);
  OpResult d = wv_decrypt(c.C, c.key, c.T);
  OpResult dp = (wv_null_input || c.C.size() > 60000) ? d : wv_decrypt_pipe(c.C, c.key, c.T); // a pipe holds 64 KiB without a reader
  wv_null_input = false;
  Ev("op").i("id", id).str("cls", c.cls).str("kind", c.kind).i("pos", c.pos).i("val", c.val).i("T", c.T).i("S", iobuffer::sum).b("key", c.key).b("C", c.C)
      .str("how", "ok").i("ver_ret", v.ret).i("ver_outlen", v.out.size()).i("ver_intact", v.in_after == c.C)
      .i("dec_ret", d.ret).b("D", d.out).i("dec_intact", d.in_after == c.C).i("decp_ret", dp.ret).i("decp_same", dp.out == d.out).i("decp_len", dp.out.size())
      .i("has_orig", !c.oC.empty()).b("oP", c.oP).b("oKey", c.oKey).b("oC", c.oC)
      .emit(wv_out);
}
static void abnormal(const Case &c, long id, const char *how, int detail)
{
  Ev("op").i("id", id).str("cls", c.cls).str("kind", c.kind).i("pos", c.pos).i("val", c.val).i("T", c.T).i("S", iobuffer::sum).b("key", c.key).b("C", c.C)
      .str("how", how).i("detail", detail).i("ver_ret", 0).i("ver_outlen", 0).i("ver_intact", 1).i("dec_ret", 0).b("D", NULL, 0).i("dec_intact", 1).i("decp_ret", 0).i("decp_same", 1).i("decp_len", 0)
      .i("has_orig", !c.oC.empty()).b("oP", c.oP).b("oKey", c.oKey).b("oC", c.oC)
      .emit(wv_out);
}
static int g_abn = 0;
// every forked batch first verifies and decrypts the authentic file with the right key (when there is
// one): a verdict, key schedule or buffer cached process-wide by that success must not leak into the
// tampered / wrong-key cases that follow in the same process
static Case g_prime;
static bool g_has_prime = false;
static void prime()
{
  if (!g_has_prime)
    return;
  OpResult v = wv_verify(g_prime.C, g_prime.key, g_prime.T);
  OpResult d = wv_decrypt(g_prime.C, g_prime.key, g_prime.T);
  (void)v;
  (void)d;
}
static void run_batch(const std::vector<Case> &cs)
{
  const size_t B = 40;
  for (size_t lo = 0; lo < cs.size(); lo += B)
  {
    size_t hi = std::min(cs.size(), lo + B);
    long base = g_id;
    int detail = 0;
    // events of a batch are buffered in the child and only written when the whole batch succeeded
    int how = wv_guarded([&]()
                         {
      prime();
      for (size_t i = lo; i < hi; ++i)
        run_case(cs[i], base + (long)(i - lo)); },
                         60, &detail);
    if (how != 0)
    {
      // pinpoint: the batch is re-run one case per child (events of the failed batch child may be partial,
      // so they carry ids that are re-used here; the front end keeps the last event per id)
      for (size_t i = lo; i < hi; ++i)
      {
        int d2 = 0;
        int h2 = g_abn > 40 ? 1 : wv_guarded([&]()
                                              { prime(); run_case(cs[i], base + (long)(i - lo)); },
                                              20, &d2);
        if (h2 != 0)
        {
          ++g_abn;
          abnormal(cs[i], base + (long)(i - lo), g_abn > 40 ? "skipped" : wv_how[h2], d2);
        }
      }
    }
    g_id += (long)(hi - lo);
  }
}

static std::vector<u8_t> rnd_seed(Rng &rng, int len)
{
  auto s = rng.bytes(len);
  for (auto &c : s)
    if (!c)
      c = 1;
  return s;
}

// ---- cookie-backed FILE that logs every write reaching the "disk" (C13)
struct Disk
{
  std::vector<u8_t> data;
  size_t pos = 0;
  std::vector<std::pair<size_t, std::vector<u8_t>>> writes;
};
static ssize_t ck_read(void *c, char *buf, size_t n)
{
  Disk *d = (Disk *)c;
  size_t k = d->pos >= d->data.size() ? 0 : std::min(n, d->data.size() - d->pos);
  memcpy(buf, d->data.data() + d->pos, k);
  d->pos += k;
  return k;
}
static ssize_t ck_write(void *c, const char *buf, size_t n)
{
  Disk *d = (Disk *)c;
  if (d->pos + n > d->data.size())
    d->data.resize(d->pos + n, 0);
  memcpy(d->data.data() + d->pos, buf, n);
  d->writes.push_back({d->pos, std::vector<u8_t>(buf, buf + n)});
  d->pos += n;
  return n;
}
static int ck_seek(void *c, off64_t *off, int whence)
{
  Disk *d = (Disk *)c;
  off64_t np = whence == SEEK_SET ? *off : whence == SEEK_CUR ? (off64_t)d->pos + *off
                                                              : (off64_t)d->data.size() + *off;
  if (np < 0)
    return -1;
  d->pos = np;
  *off = np;
  return 0;
}
static int ck_close(void *) { return 0; }

int main(int argc, char **argv)
{
  wv_capture_stdout();
  std::string mode = argv[1];
  int T = atoi(argv[2]);
  Rng rng(wv_seed() * 86028121 + mode.size() * 31 + T);
  std::vector<Case> cs;
  auto mk = [&](const std::string &cls, const std::string &kind, long pos, long val, const std::vector<u8_t> &C, const std::vector<u8_t> &key,
                const std::vector<u8_t> &oP, const std::vector<u8_t> &oKey, const std::vector<u8_t> &oC)
  {
    Case c;
    c.cls = cls, c.kind = kind, c.pos = pos, c.val = val, c.T = T, c.key = key, c.C = C, c.oP = oP, c.oKey = oKey, c.oC = oC;
    cs.push_back(c);
  };
  if (mode == "tamper" || mode == "keys" || mode == "crash")
  {
    int n = atoi(argv[3]), cm = atoi(argv[4]), hm = atoi(argv[5]);
    auto P = wv_content(rng, n, 1);
    auto key = rng.bytes(16);
    auto seed = rnd_seed(rng, 20);
    // flavour "zt": pick the key so that the file's tag has a 0x00 byte before its last byte - the
    // input on which a comparison that stops at a NUL (strncmp, strlen-bounded memcmp) goes wrong
    if (std::string(argv[argc - 1]) == "zk")
      key[(n + cm + T) % 15] = 0; // a key with an embedded NUL: C-string handling of the key truncates it
    bool zerotag = std::string(argv[argc - 1]) == "zt", zerofirst = std::string(argv[argc - 1]) == "z0";      // z0: the tag BEGINS with 0x00
    for (int tries = 0; (zerotag || zerofirst) && tries < 6000; ++tries)
    {
      OpResult e0 = wv_encrypt(P, key, cm, hm, seed, T);
      int hl = hm == 0 ? 20 : hm == 1 ? 16 : 32;
      bool has = false;
      for (int i = 0; i + 1 < (zerofirst ? 2 : hl) && e0.out.size() > (size_t)(10 + i); ++i)
        if (e0.out[10 + i] == 0)
          has = true;
      if (has)
        break;
      key = rng.bytes(16);
    }
    // flavours "zs" / "zx" / "zl" (crash mode): pick the key so that the tag an interrupted file would NEED - the real
    // HMAC of "header, IV table and the first body block", whose tag field still holds zeros - has byte sum 0 mod 256 /
    // byte xor 0 / a last byte 0: the crash states on which an aggregate, folded or partial tag comparison goes wrong
    std::string flav = argv[argc - 1];
    if (mode == "crash" && (flav == "zs" || flav == "zx" || flav == "zl") && n >= 1)
      for (int tries = 0; tries < 20000; ++tries)
      {
        OpResult e0 = wv_encrypt(P, key, cm, hm, seed, T);
        size_t cut = 48 + 20 * T + 16;
        if (e0.out.size() < cut)
          break;
        std::vector<u8_t> part(e0.out.begin(), e0.out.begin() + cut);
        for (int i = 10; i < 48; ++i)
          part[i] = 0;
        hmac hh;
        u8_t tg[64];
        FILE *f = wv_memfile(part);
        fseek(f, 48, SEEK_SET);
        hh.gethmac(hm, (u8_t *)key.data(), f, tg);
        fclose(f);
        int hl = hh.get_length(), sum = 0, x = 0;
        for (int i = 0; i < hl; ++i)
          sum += tg[i], x ^= tg[i];
        if ((flav == "zs" && sum % 256 == 0) || (flav == "zx" && x == 0) || (flav == "zl" && tg[hl - 1] == 0))
          break;
        key = rng.bytes(16);
      }
    if (mode != "crash")
    {
      OpResult e = wv_encrypt(P, key, cm, hm, seed, T);
      const std::vector<u8_t> &C = e.out;
      g_prime.T = T, g_prime.key = key, g_prime.C = C;
      g_has_prime = true;
      auto add = [&](const std::string &kind, long pos, long val, const std::vector<u8_t> &t)
      { mk("tamper", kind, pos, val, t, key, P, key, C); };
      if (mode == "tamper")
      {
        bool full = atoi(argv[6]) != 0;
        mk("tamper", "none", -1, -1, C, key, P, key, C); // the authentic file itself
        // WV_STRIDE=k (mid-size files): every position of the header, the IV table, the first and the last
        // 64 body bytes, and every k-th byte in between
        const size_t stride = getenv("WV_STRIDE") ? (size_t)atoi(getenv("WV_STRIDE")) : 1;
        for (size_t p = 0; p < C.size(); ++p)
        {
          if (stride > 1 && p >= 48 + 20 * (size_t)T + 64 && p + 64 < C.size() && p % stride != 0)
            continue;
          std::vector<int> vals = {C[p] ^ 0x01, C[p] ^ 0x80, 0x00, 0xFF};
          if (p == 8 || p == 9)
            for (int v : {0, 1, 2, 3, 4, 5, 6, 7, 127, 255})
              vals.push_back(v);
          if (!full && p >= 48 + 20 && p % 3 != 0 && p + 17 < C.size())
            vals.resize(1); // quick: one flip for most body bytes
          std::set<int> seen;
          for (int v : vals)
          {
            if (v == C[p] || !seen.insert(v).second)
              continue;
            auto t = C;
            t[p] = (u8_t)v;
            add("set", p, v, t);
          }
        }
        for (size_t len = 0; len < C.size(); len += (stride > 1 && len >= 200 && len + 40 < C.size()) ? stride : (full || len < 80 || len + 20 > C.size()) ? 1 : 5)
          add("truncate", len, -1, std::vector<u8_t>(C.begin(), C.begin() + len));
        for (int k : {1, 16, 20, 32})
        {
          auto t = C;
          t.resize(C.size() + k, 0);
          add("extend-zero", C.size(), k, t);
          auto r = rng.bytes(k);
          auto t2 = C;
          t2.insert(t2.end(), r.begin(), r.end());
          add("extend-random", C.size(), k, t2);
        }
        // the file followed by the hash function's OWN padding of what the tag covers (key block + region):
        // 80 00.. and the 64-bit bit length, big-endian (SHA-1/SHA-256) and little-endian (MD5) - the
        // extension that a hash which skips or mis-places its final block cannot tell from the original
        for (int le = 0; le < 2; ++le)
          for (unsigned long long pre : {64ULL, 0ULL})
          {
            unsigned long long L = pre + (C.size() - 48);
            std::vector<u8_t> pad(1, 0x80);
            while ((L + pad.size()) % 64 != 56)
              pad.push_back(0);
            for (int i = 0; i < 8; ++i)
              pad.push_back((u8_t)((L * 8) >> (le ? 8 * i : 8 * (7 - i))));
            auto t = C;
            t.insert(t.end(), pad.begin(), pad.end());
            add(le ? "extend-mdpad-le" : "extend-mdpad-be", C.size(), (long)pre, t);
          }
        // insert / delete at region boundaries and interiors
        size_t tm = 48 + 20 * T;
        for (size_t p : std::vector<size_t>{0, 4, 8, 9, 10, 20, 30, 40, 47, 48, 58, tm - 1, tm, tm + 1, tm + 16, C.size() - 16, C.size() - 1})
        {
          if (p > C.size())
            continue;
          auto t = C;
          t.insert(t.begin() + p, (u8_t)rng.g());
          add("insert", p, 1, t);
          if (p < C.size())
          {
            auto t2 = C;
            t2.erase(t2.begin() + p);
            add("delete", p, 1, t2);
          }
        }
        // swaps of 16-byte body blocks, of whole chunks, of IVs
        size_t nb = (C.size() - tm) / 16;
        for (size_t i = 0; i < nb; ++i)
          for (size_t j = i + 1; j < nb; ++j)
          {
            auto t = C;
            std::swap_ranges(t.begin() + tm + 16 * i, t.begin() + tm + 16 * i + 16, t.begin() + tm + 16 * j);
            if (t != C)
              add("swap-blocks", i, j, t);
          }
        size_t S = iobuffer::sum, nc = (C.size() - tm) / S;
        for (size_t i = 0; i < nc; ++i)
          for (size_t j = i + 1; j < nc; ++j)
          {
            auto t = C;
            std::swap_ranges(t.begin() + tm + S * i, t.begin() + tm + S * i + S, t.begin() + tm + S * j);
            if (t != C)
              add("swap-chunks", i, j, t);
          }
        for (int i = 0; i < T; ++i)
          for (int j = i + 1; j < T; ++j)
          {
            auto t = C;
            std::swap_ranges(t.begin() + 48 + 20 * i, t.begin() + 48 + 20 * i + 20, t.begin() + 48 + 20 * j);
            add("swap-ivs", i, j, t);
          }
        // aggregate-preserving alterations of the stored tag (byte sum / xor-fold / multiset unchanged)
        {
          int hl = hm == 0 ? 20 : hm == 1 ? 16 : 32;
          for (int v = 0; v < 3; ++v)
            for (int rep = 0; rep < 3; ++rep)
            {
              int i = (rep * 7 + v) % hl, j = (i + 1 + rep) % hl;
              auto t = C;
              if (v == 0)
                std::swap(t[10 + i], t[10 + j]);
              else if (v == 1)
                t[10 + i] = (u8_t)(t[10 + i] + 1), t[10 + j] = (u8_t)(t[10 + j] - 1);
              else
                t[10 + i] ^= 0x24, t[10 + j] ^= 0x24;
              if (t != C)
                add(v == 0 ? "tag-swap" : v == 1 ? "tag-plus-minus" : "tag-xor-pair", i, j, t);
            }
        }
        // forgery against a prefix-only comparison: find a body modification whose correct tag starts with
        // 0x00 (the code's own hmac is used to search) and store the tag 00 FF FF ...
        for (int tries = 0; tries < 6000; ++tries)
        {
          auto t = C;
          size_t p = tm + rng.next(t.size() - tm);
          t[p] ^= (u8_t)(1 + rng.next(255));
          hmac hh;
          u8_t tg[64];
          FILE *f = wv_memfile(t);
          fseek(f, 48, SEEK_SET);
          hh.gethmac(hm, (u8_t *)key.data(), f, tg);
          fclose(f);
          if (tg[0] == 0)
          {
            int hl = hh.get_length();
            for (int i = 0; i < hl; ++i)
              t[10 + i] = i == 0 ? 0 : 0xFF;
            add("zero-prefix-forgery", p, tries, t);
            break;
          }
        }
        // a file that verifies but was not produced by encryption: 1..15 bytes appended, tag recomputed
        for (int k : {1, 7, 15})
        {
          auto t = C;
          auto r = rng.bytes(k);
          t.insert(t.end(), r.begin(), r.end());
          MemFile mf(t);
          hmac hh;
          hh.writeFileHmac(hm, mf.f, (u8_t *)key.data(), 48, 10);
          fflush(mf.f);
          std::vector<u8_t> t2 = mf.bytes();
          fclose(mf.f);
          mk("retag", "append-retag", C.size(), k, t2, key, P, key, C);
        }
        // splice: header (incl. tag) of this file, body of another file made with the same key
        {
          auto P2 = wv_content(rng, n, 1);
          OpResult e2 = wv_encrypt(P2, key, cm, hm, rnd_seed(rng, 20), T);
          auto t = C;
          std::copy(e2.out.begin() + tm, e2.out.end(), t.begin() + tm);
          add("splice-body", tm, -1, t);
          auto t3 = e2.out;
          std::copy(C.begin() + 10, C.begin() + 48, t3.begin() + 10);
          add("splice-tag", 10, -1, t3);
        }
      }
      else
      { // wrong keys
        int nr = atoi(argv[6]);
        for (int bit = 0; bit < 128; ++bit)
        {
          auto k2 = key;
          k2[bit / 8] ^= (u8_t)(0x80 >> (bit % 8));
          mk("key", "bit", bit, -1, C, k2, P, key, C);
        }
        for (int i = 0; i < nr; ++i)
        {
          auto k2 = rng.bytes(16);
          if (k2 != key)
            mk("key", "random", i, -1, C, k2, P, key, C);
        }
        // flavour "pc" (partial collision): wrong keys, found with the code's own HMAC, whose tag for this file agrees
        // with the stored one in two chosen byte positions - what a comparison that looks at part of the tag only
        // (first/last bytes, one byte per machine word) cannot tell from the right key.  ~2^16 tries per pair.
        if (std::string(argv[argc - 1]) == "pc" && C.size() > 48)
        {
          int hl = hm == 0 ? 20 : hm == 1 ? 16 : 32;
          const int pairs[4][2] = {{0, 8}, {0, 1}, {hl - 2, hl - 1}, {0, hl - 1}};
          FILE *f = wv_memfile(C);
          for (auto &pr : pairs)
          {
            Rng r2(wv_seed() * 31 + pr[0] * 7 + pr[1]);
            for (int tries = 0; tries < 400000; ++tries)
            {
              auto k2 = r2.bytes(16);
              if (k2 == key)
                continue;
              u8_t tg[64];
              fseek(f, 48, SEEK_SET);
              hmac hh;
              hh.gethmac(hm, k2.data(), f, tg);
              if (tg[pr[0]] == C[10 + pr[0]] && tg[pr[1]] == C[10 + pr[1]])
              {
                mk("key", "partial-collision", pr[0] * 100 + pr[1], tries, C, k2, P, key, C);
                break;
              }
            }
          }
          fclose(f);
        }
        for (int b : {0, 15})
          for (int v : {0x00, 0xFF})
          {
            auto k2 = key;
            k2[b] = (u8_t)(key[b] == v ? v ^ 0x55 : v);
            mk("key", "byte", b, v, C, k2, P, key, C);
          }
        mk("key", "zero", -1, -1, C, std::vector<u8_t>(16, 0) == key ? std::vector<u8_t>(16, 1) : std::vector<u8_t>(16, 0), P, key, C);
        mk("key", "right", -1, -1, C, key, P, key, C);
      }
    }
    else
    { // crash points: log the writes of one encryption, then materialise every intermediate state
      bool unbuf = atoi(argv[6]) != 0;
      Disk disk;
      cookie_io_functions_t io = {ck_read, ck_write, ck_seek, ck_close};
      FILE *out = fopencookie(&disk, "wb+", io);
      if (unbuf)
        setvbuf(out, NULL, _IONBF, 0);
      MemFile in(P);
      auto s0 = seed;
      s0.push_back(0);
      Settings st(cm, hm, true);
      bool ret;
      {
        runcrypt rc(in.f, out, key.data(), st, T);
        ret = rc.execute_encrypt(P.size(), s0.data());
      }
      std::vector<u8_t> final_file = disk.data;
      // the write log as one event (WriteOrder is judged by TLC)
      {
        std::string w = "[";
        for (size_t i = 0; i < disk.writes.size(); ++i)
        {
          w += i ? ",{" : "{";
          w += "\"off\":" + std::to_string(disk.writes[i].first) + ",\"len\":" + std::to_string(disk.writes[i].second.size()) + "}";
        }
        w += "]";
        Ev("writelog").i("id", g_id++).i("T", T).i("n", n).i("cm", cm).i("hm", hm).i("unbuf", unbuf).i("ret", ret).raw("writes", w).b("final", final_file).emit(wv_out);
      }
      std::vector<u8_t> state;
      std::set<std::vector<u8_t>> seen;
      auto addstate = [&](size_t wi, size_t k)
      {
        if (seen.insert(state).second)
          mk("crash", unbuf ? "unbuffered" : "buffered", wi, k, state, key, P, key, final_file);
      };
      addstate(0, 0); // nothing written
      for (size_t wi = 0; wi < disk.writes.size(); ++wi)
      {
        size_t off = disk.writes[wi].first;
        const auto &bytes = disk.writes[wi].second;
        for (size_t k = 0; k < bytes.size(); ++k)
        {
          if (off + k >= state.size())
            state.resize(off + k + 1, 0);
          state[off + k] = bytes[k];
          addstate(wi, k + 1);
        }
      }
    }
  }
  else if (mode == "garbage")
  {
    int count = atoi(argv[3]);
    auto key = rng.bytes(16);
    std::vector<u8_t> none;
    const u8_t magic[8] = {0xC3, 0xA5, 0xC3, 0xA5, 0xC3, 0xA5, 0xC3, 0xA5};
    // structural classes: length class x magic x mode bytes x tag kind
    const int lens[] = {0, 1, 7, 8, 9, 10, 11, 47, 48, 49, 73, 74, 75, 48 + 20 * T - 1, 48 + 20 * T, 48 + 20 * T + 1, 48 + 20 * T + 15, 48 + 20 * T + 16, 48 + 20 * T + 17, 48 + 20 * T + 32, 48 + 20 * T + 64, 48 + 20 * T + 65, 200};
    const int cts[] = {0, 1, 2, 3, 4, 5, 127, 255}, hts[] = {0, 1, 2, 3, 255};
    for (int len : lens)
      for (int mg = 0; mg < 2; ++mg)
        for (int ct : cts)
          for (int ht : hts)
          {
            if (mg == 0 && (ct != 1 || ht != 0))
              continue; // bad magic: one mode pair is enough
            for (int tk = 0; tk < 2; ++tk)
            { // tag field: zero / random junk
              auto f = rng.bytes(len);
              for (int i = 0; i < len && i < 8; ++i)
                f[i] = mg ? magic[i] : (u8_t)(magic[i] ^ (i == 3 ? 1 : 0));
              if (len > 8)
                f[8] = ct;
              if (len > 9)
                f[9] = ht;
              if (tk == 0)
                for (int i = 10; i < len && i < 48; ++i)
                  f[i] = 0;
              mk("garbage", "class", len, ct * 256 + ht, f, key, none, none, none);
            }
          }
    // an input that could not be opened (NULL handle): both operations must fail cleanly
    mk("nullinput", "null", 0, 0, std::vector<u8_t>(), key, none, none, none);
    // tag valid for another key / for other content: a real file re-keyed or with another file's tag
    for (int rep = 0; rep < 6; ++rep)
    {
      auto P = wv_content(rng, 20 + 16 * rep, 1);
      auto k1 = rng.bytes(16);
      OpResult e = wv_encrypt(P, k1, rep % 5, rep % 3, rnd_seed(rng, 20), T);
      mk("garbage", "other-key", rep, -1, e.out, key, none, none, none);
    }
    // random garbage of random length, and bit-noise on valid files
    for (int i = 0; i < count; ++i)
    {
      int len = rng.next(i % 3 == 0 ? 30 : 300);
      mk("garbage", "random", len, -1, rng.bytes(len), key, none, none, none);
    }
    for (int i = 0; i < count / 2; ++i)
    {
      auto P = wv_content(rng, rng.next(90), 1);
      OpResult e = wv_encrypt(P, key, i % 5, i % 3, rnd_seed(rng, 20), T);
      auto t = e.out;
      int flips = 1 + rng.next(6);
      for (int f = 0; f < flips; ++f)
        t[rng.next(t.size())] ^= (u8_t)(1 << rng.next(8));
      if (t != e.out)
        mk("tamper", "noise", flips, -1, t, key, P, key, e.out);
    }
    // vectors generated by the specification (spec/MC_Garbage): lines "len magic ct ht tag"
    if (argc > 4)
    {
      FILE *vf = fopen(argv[4], "r");
      int len, mg, ct, ht, tk;
      while (vf && fscanf(vf, "%d %d %d %d %d", &len, &mg, &ct, &ht, &tk) == 5)
      {
        auto f = rng.bytes(len);
        for (int i = 0; i < len && i < 8; ++i)
          f[i] = mg ? magic[i] : (u8_t)(magic[i] ^ 0x10);
        if (len > 8)
          f[8] = ct;
        if (len > 9)
          f[9] = ht;
        if (tk == 0)
          for (int i = 10; i < len && i < 48; ++i)
            f[i] = 0;
        mk("garbage", "spec-class", len, ct * 256 + ht, f, key, none, none, none);
      }
    }
  }
  run_batch(cs);
  Ev("end").i("id", g_id).i("cases", (long)cs.size()).emit(wv_out);
  return 0;
}
