----------------------------- MODULE WencryTrace -----------------------------
(***************************************************************************)
(* C01 / C02 / C08 (file conjunct): recorded round trips of the real       *)
(* execute_encrypt / execute_verify / execute_decrypt against FileFormat.  *)
(*  RoundTrip : all three report success, decrypted bytes = plaintext,     *)
(*              inputs untouched, verify wrote nothing                     *)
(*  FormatOK  : ciphertext = EncryptBytes(P, key, cm, hm, seed, T, S)      *)
(*              byte for byte (when FULL = "1"; length formula always)     *)
(*  TagOK     : bytes [10,10+hlen) = HMAC over [48,EOF), zeros up to 48    *)
(***************************************************************************)
EXTENDS Naturals, Sequences, TLC, Json, IOUtils, Bytes
LOCAL F == INSTANCE FileFormat
LOCAL H == INSTANCE HMAC
LOCAL Ck == INSTANCE Chunking
Events == ndJsonDeserialize(IOEnv.TRACE)
Full == IOEnv.FULL = "1"
VARIABLES l, nbad

\* no 16-byte block of the body equals the plaintext block at the same offset
NoClearBlock(ev) ==
  LET body == Drop(ev.C, F!TextMark(ev.T))
  IN \A b \in 0..((ev.n \div 16) - 1) : Slice(body, 16 * b, 16) # Slice(ev.P, 16 * b, 16)

Why(ev) ==
  IF ev.e = "consts" THEN (IF Ck!ConstsOK(ev) THEN <<"ok">> ELSE <<"production constants violate sum = 16*BUF_SZ = sizeof b, marks 0/8/10/48, 48+20T, THREAD_MAX = 16">>)
  ELSE IF ev.e = "rtbig" THEN     \* production chunk size: bytes are compared by the driver, lengths and verdicts here
       (IF ev.enc_ret # 1 \/ ev.ver_ret # 1 \/ ev.dec_ret # 1 THEN <<"an operation reported failure", ev.enc_ret, ev.ver_ret, ev.dec_ret>>
        ELSE IF ev.clen # 48 + 20 * ev.T + 16 * ((ev.n \div 16) + 1) THEN <<"ciphertext length differs from 48+20T+16(n div 16 + 1)", ev.clen>>
        ELSE IF ev.dlen # ev.n \/ ev.equal # 1 THEN <<"decrypted bytes differ from the plaintext", ev.dlen, ev.n>>
        ELSE IF ev.enc_in_intact # 1 \/ ev.ver_out_len # 0 THEN <<"input modified or verification wrote output">>
        ELSE IF ev.clear_block = 1 THEN <<"a plaintext block appears untransformed in the body">>
        ELSE IF Take(ev.head, 8) # F!Magic \/ ev.head[9] # ev.cm \/ ev.head[10] # ev.hm THEN <<"magic / mode bytes wrong">>
        ELSE <<"ok">>)
  ELSE IF ev.e = "abort" THEN <<"operation did not return normally", ev.how, ev.detail>>
  ELSE IF ev.e # "rt" THEN <<"unknown event">>
  ELSE IF ev.enc_ret # 1 THEN <<"encryption reported failure">>
  ELSE IF Len(ev.C) # F!EncryptedLen(ev.n, ev.T) THEN <<"ciphertext length differs from 48+20T+16(n div 16 + 1)", Len(ev.C)>>
  ELSE IF ev.enc_in_intact # 1 \/ ev.ver_in_intact # 1 \/ ev.dec_in_intact # 1 THEN <<"an operation modified its input file">>
  ELSE IF ev.ver_ret # 1 THEN <<"verification of a freshly encrypted file failed">>
  ELSE IF ev.ver_out_len # 0 THEN <<"verification wrote output">>
  ELSE IF ev.dec_ret # 1 THEN <<"decryption of a freshly encrypted file failed">>
  ELSE IF ev.D # ev.P THEN <<"decrypted bytes differ from the plaintext", Len(ev.D), Len(ev.P)>>
  ELSE IF ev.same_again # 1 THEN <<"two encryptions with identical parameters differ">>
  ELSE IF Take(ev.C, 8) # F!Magic \/ ev.C[9] # ev.cm \/ ev.C[10] # ev.hm THEN <<"magic / mode bytes wrong">>
  ELSE IF ~NoClearBlock(ev) THEN <<"a plaintext block appears untransformed in the body">>
  ELSE IF Full /\ ev.C # F!EncryptBytes(ev.P, ev.key, ev.cm, ev.hm, ev.seed, ev.T, ev.S)
       THEN <<"ciphertext differs from the format specification (EncryptBytes)">>
  ELSE <<"ok">>

Init == l = 1 /\ nbad = 0
Next == /\ l <= Len(Events)
        /\ LET ev == Events[l]  w == Why(ev)
           IN /\ IF w = <<"ok">> THEN TRUE ELSE PrintT(<<"BAD", l, ev.id, w>>)
              /\ nbad' = nbad + (IF w = <<"ok">> THEN 0 ELSE 1)
        /\ l' = l + 1
Finished == (l = Len(Events) + 1) => PrintT(<<"DONE", Len(Events), nbad>>)
Spec == Init /\ [][Next]_<<l, nbad>>
=============================================================================
