-------------------------------- MODULE Modes -------------------------------
(***************************************************************************)
(* The five confidentiality modes of NIST SP 800-38A (ECB 6.1, CBC 6.2,    *)
(* CFB-128 6.3, OFB 6.4, CTR 6.5 with the standard incrementing function   *)
(* of Appendix B.1 over all 128 bits) written as state machines: a stream  *)
(* is a register `reg` and Step consumes one block and yields              *)
(* <<output block, next register>>.  That is the shape of wencry's mode    *)
(* objects (one object per cipher stream, one call per block), so a        *)
(* recorded sequence of calls is a behaviour of this machine.              *)
(*                                                                         *)
(* Parameterised by the block cipher so that the same definitions are      *)
(* model-checked exhaustively over a toy cipher (MC_ModesToy) and used as  *)
(* executable oracle with AES-128 (ModesAES).                              *)
(* Mode numbering is wencry's: 0 ECB, 1 CBC, 2 CTR, 3 CFB, 4 OFB.          *)
(***************************************************************************)
EXTENDS Naturals, Sequences
CONSTANTS E(_, _),      \* E(k, block)  forward cipher under key (schedule) k
          D(_, _),      \* D(k, block)  inverse cipher
          BXor(_, _),   \* block xor
          Inc(_)        \* the incrementing function on a counter block

ModeIds == {0, 1, 2, 3, 4}
ECB == 0  CBC == 1  CTR == 2  CFB == 3  OFB == 4

EncStep(m, k, reg, b) ==
  CASE m = ECB -> << E(k, b), reg >>
    [] m = CBC -> LET c == E(k, BXor(b, reg)) IN << c, c >>
    [] m = CTR -> << BXor(b, E(k, reg)), Inc(reg) >>
    [] m = CFB -> LET c == BXor(b, E(k, reg)) IN << c, c >>
    [] m = OFB -> LET o == E(k, reg) IN << BXor(b, o), o >>

DecStep(m, k, reg, c) ==
  CASE m = ECB -> << D(k, c), reg >>
    [] m = CBC -> << BXor(D(k, c), reg), c >>
    [] m = CTR -> << BXor(c, E(k, reg)), Inc(reg) >>
    [] m = CFB -> << BXor(c, E(k, reg)), c >>
    [] m = OFB -> LET o == E(k, reg) IN << BXor(c, o), o >>

Step(enc, m, k, reg, b) == IF enc THEN EncStep(m, k, reg, b) ELSE DecStep(m, k, reg, b)

\* a whole stream: the sequence of outputs and the final register
RECURSIVE RunFrom(_, _, _, _, _, _)
RunFrom(enc, m, k, reg, blocks, acc) ==
  IF blocks = <<>> THEN << acc, reg >>
  ELSE LET r == Step(enc, m, k, reg, blocks[1])
       IN RunFrom(enc, m, k, r[2], [i \in 1..(Len(blocks) - 1) |-> blocks[i + 1]], acc \o << r[1] >>)
Run(enc, m, k, iv, blocks) == RunFrom(enc, m, k, iv, blocks, <<>>)
=============================================================================
