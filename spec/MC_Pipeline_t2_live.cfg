CONSTANTS T = 2  N = 70  S = 32  Dir = "enc"  EofPeek = TRUE  Pad = 0
  Gate = TRUE  NotifyReady = TRUE  NotifyUpdate = TRUE  WaitLoop = TRUE  ReadyTest = TRUE  Spurious = TRUE  Unbounded = FALSE
  Loads <- MCLoads  DecPad <- MCDecPad
SPECIFICATION FairSpec
INVARIANTS TypeOK Exclusive NoUnderflow InOrder OutPrefix OutExact Quiescent LockDiscipline
PROPERTY Termination
