CONSTANTS T = 2  N = 40  S = 32  Dir = "enc"  EofPeek = TRUE  Pad = 0
  Gate = TRUE  NotifyReady = FALSE  NotifyUpdate = TRUE  WaitLoop = TRUE  ReadyTest = TRUE  Spurious = FALSE  Unbounded = FALSE
  Loads <- MCLoads  DecPad <- MCDecPad
SPECIFICATION Spec
INVARIANTS TypeOK Exclusive NoUnderflow InOrder OutPrefix OutExact Quiescent LockDiscipline

