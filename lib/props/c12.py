"""C12 - verify accepts exactly what decrypt accepts; writes nothing; inputs stay intact."""
import json, os
import wv
from props import filelevel as fl
PID = "C12"
ONLY = ["verification and decryption disagree", "verification wrote output", "modified its input", "did not return normally", "non-seekable output"]


def prompt_cases(res, tier):
    """The same claim through the program's other entry point, the prompt mode with its default output names:
    verify and decrypt of the same file agree and no operation changes its input - for input names up to the
    longest the prompt accepts (127 characters), where "<input>.wdec" / "<input>.wenc" must not collapse onto the input."""
    import hashlib, shutil, subprocess, tempfile
    from props import c17
    exe = c17.binary()
    root = tempfile.mkdtemp(prefix="wvc12.", dir="/var/tmp")
    n = 0
    try:
        t = c17.make_template(exe, root)
        enc = open(os.path.join(t, "E.wenc"), "rb").read()
        for k in ((20, 122, 127) if tier == "quick" else (1, 20, 100, 121, 122, 123, 124, 126, 127)):
            d = os.path.join(root, "p%d" % k); os.makedirs(d)
            name = ("N" * k)
            verdict = {}
            for op, content, lines in (("v", enc, ["v", name, c17.K]), ("d", enc, ["d", name, "n", c17.K]), ("e", c17.PLAIN, ["e", name, "y", "2", "1", "seedword"])):
                open(os.path.join(d, name), "wb").write(content)
                env = dict(os.environ); env.update(wv.ASAN_ENV)
                try:
                    r = subprocess.run([exe], cwd=d, input=("\n".join(lines) + "\n").encode(), stdout=subprocess.PIPE, stderr=subprocess.STDOUT, timeout=30, env=env)
                    rc, out = r.returncode, r.stdout[-4000:]
                except subprocess.TimeoutExpired:
                    rc, out = 124, b"(timeout)"
                n += 1
                after = open(os.path.join(d, name), "rb").read() if os.path.exists(os.path.join(d, name)) else None
                if b"AddressSanitizer" in out or b"runtime error:" in out or rc < 0:
                    res.violation("prompt mode, operation %s on an input name of %d characters: crashed (rc=%s) %s" % (op, k, rc, out[-200:].decode(errors="replace")), {"prompt": lines})
                elif after != content:
                    res.violation("prompt mode, operation %s on an input name of %d characters modified its input file (%d -> %s bytes)" % (op, k, len(content), "no file" if after is None else len(after)), {"prompt": lines})
                verdict[op] = rc
                for f in os.listdir(d):
                    os.unlink(os.path.join(d, f))
            if (verdict.get("v") == 0) != (verdict.get("d") == 0):
                res.violation("prompt mode, input name of %d characters: verify exit %s but decrypt exit %s on the same file and key" % (k, verdict.get("v"), verdict.get("d")), {"prompt_name_len": k})
    finally:
        shutil.rmtree(root, ignore_errors=True)
    res.cov["prompt_mode_operations"] = n


def run(tier, replay):
    res = wv.Result(PID, "exploration", tier)
    if replay:
        events = json.load(open(replay))["replay"]["events"]
    else:
        if tier == "quick":
            jobs = [["tamper", 2, 40, 1, 0, 0], ["keys", 2, 30, 2, 1, 8], ["garbage", 2, 60], ["crash", 2, 40, 3, 2, 1], ["tamper", 1, 20, 0, 2, 0], ["tamper", 4, 40, 4, 1, 0]]
        else:
            jobs = [["tamper", T, n, (n + T) % 5, n % 3, 1] for T in (1, 2, 4) for n in (0, 33, 70)] + [["keys", T, 50, T, T % 3, 64] for T in (1, 2, 4)] + \
                   [["garbage", T, 6000] for T in (1, 2, 4, 16)] + [["crash", 2, n, n % 5, n % 3, u] for n in (0, 20, 40, 70) for u in (0, 1)]
        events = fl.collect(res, PID, jobs)
    st, nfull = fl.judge(res, PID, events, only=ONLY)
    if not replay:
        prompt_cases(res, tier)
    ops = [e for e in events if e["e"] == "op"]
    acc = sum(1 for e in ops if e["dec_ret"] == 1)
    keys = set((e["cls"], e["kind"], e["T"], len(e["C"]), e["ver_ret"]) for e in ops)
    res.cov.update({"evaluations": len(ops), "distinct_nontrivial": len(keys), "accepted_cases": acc,
                    "rule": "a mix of the C05/C06/C11/C13 drivers (valid, tampered, truncated, malformed, wrong key, crash states): every event records the verdicts of execute_verify, execute_decrypt into a file and execute_decrypt into a pipe (non-seekable output) on the same bytes and key, with echo on, the size of what verify wrote, and a byte comparison of the input before/after each operation; TLC evaluates VerifyOK <=> DecryptOK (both sinks, same bytes delivered), no output from verify, inputs intact on every event. Distinct = (class, kind, T, length, verdict).",
                    "traces_validated_against_impl": len(ops), "validator_states": st["states"], "exhaustive": False})
    for e in ops[:: max(1, len(ops) // 3)][:3]:
        res.sample(fl.describe(e))
    res.assumptions += ["in the specification both operations share one Verify definition; the binding is what is checked here"]
    return res.finish()
