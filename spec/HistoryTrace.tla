----------------------------- MODULE HistoryTrace ----------------------------
(***************************************************************************)
(* C15: recorded histories of operations inside one process of the real    *)
(* code.  Each event carries the results of every operation of the history *)
(* (return value, output bytes, probe of the process-wide state) and the   *)
(* table of results each operation gives alone in a fresh process.         *)
(*   HistoryFree : result i of the history = fresh result of operation i   *)
(*   Quiescent   : after every operation the singleton is NULL, counter 0  *)
(*                 (implementation level: the front end reports a failure  *)
(*                 of this alone as specification drift, not as a          *)
(*                 violation of C15)                                       *)
(***************************************************************************)
EXTENDS Naturals, Sequences, TLC, Json, IOUtils
Events == ndJsonDeserialize(IOEnv.TRACE)
VARIABLES l, nbad

Why(ev) ==
  IF ev.e # "hist" THEN <<"unknown event">>
  ELSE IF ev.how # "ok" THEN <<"history did not run to completion", ev.how>>
  ELSE IF Len(ev.results) # Len(ev.ops) THEN <<"missing results">>
  ELSE IF \E i \in 1..Len(ev.ops) : ev.fresh[ev.ops[i] + 1].how # "ok" THEN <<"an operation fails even in a fresh process">>
  ELSE LET bad == {i \in 1..Len(ev.ops) : \/ ev.results[i].ret # ev.fresh[ev.ops[i] + 1].ret
                                           \/ ev.results[i].out # ev.fresh[ev.ops[i] + 1].out} 
           nq == {i \in 1..Len(ev.ops) : ev.results[i].inst_null # 1 \/ ev.results[i].live # 0} IN
       IF bad # {} THEN <<"operation behaves differently than in a fresh process; position", CHOOSE i \in bad : \A j \in bad : i <= j, "ops", ev.ops>>
       ELSE IF nq # {} THEN <<"process state not quiescent after operation at position", CHOOSE i \in nq : \A j \in nq : i <= j, "ops", ev.ops>>
       ELSE <<"ok">>

Init == l = 1 /\ nbad = 0
Next == /\ l <= Len(Events)
        /\ LET ev == Events[l]  w == Why(ev)
           IN /\ IF w = <<"ok">> THEN TRUE ELSE PrintT(<<"BAD", l, ev.id, w>>)
              /\ nbad' = nbad + (IF w = <<"ok">> THEN 0 ELSE 1)
        /\ l' = l + 1
Finished == (l = Len(Events) + 1) => PrintT(<<"DONE", Len(Events), nbad>>)
Spec == Init /\ [][Next]_<<l, nbad>>
=============================================================================
