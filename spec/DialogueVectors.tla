---------------------------- MODULE DialogueVectors ---------------------------
(* Spec -> code: every complete run of the prompt dialogue (Dialogue.tla, at most MaxRetry wrong
   answers per prompt) with the prompts it prints and the outcome it must have, as JSON. *)
EXTENDS DialogueCore, TLC, Json, IOUtils, SequencesExt, FiniteSetsExt
RECURSIVE RunsFrom(_)
RunsFrom(s) == IF s.pc = "done" THEN {s} ELSE UNION { RunsFrom(Step(s, a)) : a \in Answers(s) }
Runs == RunsFrom(S0)
Vectors == SetToSeq({ [script |-> s.script, prompts |-> s.prompts, outcome |-> Outcome(s)] : s \in Runs })
ASSUME \A s \in Runs : Run(s.script) = s          \* the functional and the recursive reading agree
ASSUME JsonSerialize(IOEnv.OUT, Vectors)
ASSUME PrintT(<<"DIALOGUES", Len(Vectors)>>)
=============================================================================
