// Deterministic scheduler + exhaustive schedule explorer for the REAL pipeline code
// (multicry.cpp / multi_buffergroup.cpp compiled unedited with -include wv_sync.h).
//
//   h_sched explore <T> <dir enc|dec> <n> <spurious 0|1> <out-prefix> [maxstates]
//        explores every schedule (stateful DFS by re-execution), writes <out-prefix>.nodes.ndjson
//        and <out-prefix>.edges.ndjson : the transition graph of the code under the projection pi
//   h_sched replay <T> <dir> <n> <spurious> <schedule: comma separated thread ids>
//        re-executes one schedule and prints the event log
//   h_sched pct <T> <dir> <n> <runs> <out-prefix>      random-priority schedules (larger T)
//
// Logical threads: 0 = the I/O thread (caller of run_multicry), 1..T = workers in creation order.
#include "wv_sync.h"
#include "wv_json.h"
#include "multicry.h"
#include <type_traits>
#include <unistd.h>

using namespace wv;

// ------------------------------------------------------------------ scheduler state
enum Pend
{
  P_PLAIN,
  P_LOCK,
  P_CVWAKE,
  P_JOIN,
  P_FIN
};
struct LT
{
  int id;
  Pend pend = P_PLAIN;
  wv::mutex *m = nullptr;
  wv::condition_variable *cv = nullptr;
  int jt = -1;
  std::string tag = "start";
  int arg = 0;
  std::string pc = "st";
  bool timed = false;
  real_cv cond;
  real_thread real;
  bool has_real = false;
};
struct Step
{
  unsigned long long hash;
  int state_id;
  std::vector<int> enabled;
  int chosen;
};
struct Sched
{
  real_mutex M;
  std::vector<std::unique_ptr<LT>> th;
  int current = -1;
  bool active = false, aborting = false, spurious = false, deadlocked = false, stuck = false;
  std::vector<int> prefix;
  std::vector<Step> steps;
  int joins_done = 0;
  // PCT mode
  bool pct = false;
  std::vector<int> prio;
  std::vector<int> change_at;
  std::mt19937_64 rng{1};
  std::atomic<long> yields{0};
} S;
static thread_local int tls_id = -1;
static thread_local bool tls_abort_pending = false; // an abort noticed where throwing is not allowed (unlock may run in a destructor)

static std::string capture_state(bool terminal);
static int intern_state(const std::string &js, unsigned long long h);
static bool g_log = false;
// explore mode: states are expanded while the run is in progress, and a run is cut as soon as it
// reaches a state that has already been expanded (everything beyond is known)
static bool g_explore = false;
static std::vector<std::vector<int>> g_stack;
static std::vector<char> g_expanded;
static std::set<std::tuple<int, int, int>> g_edges;
static int g_prev_sid = -1, g_prev_chosen = -1;
static bool g_cut = false;

static bool enabled(const LT &t)
{
  switch (t.pend)
  {
  case P_PLAIN:
    return true;
  case P_LOCK:
    return t.m->holder == -1;
  case P_CVWAKE:
  {
    bool waiting = std::find(t.cv->waiters.begin(), t.cv->waiters.end(), t.id) != t.cv->waiters.end();
    return (!waiting || S.spurious || t.timed) && t.m->holder == -1;
  }
  case P_JOIN:
    return S.th[t.jt]->pend == P_FIN;
  default:
    return false;
  }
}
static unsigned long long fnv(const std::string &s)
{
  unsigned long long h = 1469598103934665603ULL;
  for (unsigned char c : s)
  {
    h ^= c;
    h *= 1099511628211ULL;
  }
  return h;
}
// called with S.M held, by the thread that has just reached a scheduling point (or finished)
static void schedule_next()
{
  std::vector<int> en;
  bool unfinished = false;
  for (auto &t : S.th)
  {
    if (t->pend != P_FIN)
      unfinished = true;
    if (enabled(*t))
      en.push_back(t->id);
  }
  if (!unfinished)
  {
    S.current = -2; // run complete
    return;
  }
  std::string js = capture_state(false);
  unsigned long long h = fnv(js);
  int sid = intern_state(js, h);
  if (g_prev_sid >= 0)
    g_edges.insert(std::make_tuple(g_prev_sid, g_prev_chosen, sid));
  g_prev_sid = -1;
  if (en.empty())
  {
    S.steps.push_back({h, sid, en, -1});
    S.deadlocked = true;
    S.aborting = true;
    for (auto &t : S.th)
      t->cond.notify_all();
    return;
  }
  int pick;
  size_t idx = S.steps.size();
  if (idx < S.prefix.size())
  {
    pick = S.prefix[idx];
    if (std::find(en.begin(), en.end(), pick) == en.end())
    {
      fprintf(stderr, "infeasible schedule at step %zu: thread %d not enabled\n", idx, pick);
      _exit(4);
    }
  }
  else if (g_explore)
  {
    if (g_expanded[sid])
    {
      g_cut = true;
      S.aborting = true;
      for (auto &t : S.th)
        t->cond.notify_all();
      return;
    }
    g_expanded[sid] = 1;
    pick = en[0];
    for (int e : en)
      if (e != pick)
      {
        std::vector<int> p;
        for (auto &st : S.steps)
          p.push_back(st.chosen);
        p.push_back(e);
        g_stack.push_back(p);
      }
  }
  else if (S.pct)
  {
    for (size_t c = 0; c < S.change_at.size(); ++c)
      if ((int)idx == S.change_at[c])
        S.prio[S.current >= 0 ? S.current : 0] = -(int)c - 1; // demote the running thread
    pick = en[0];
    for (int e : en)
      if (S.prio[e] > S.prio[pick])
        pick = e;
  }
  else
    pick = en[0];
  g_prev_sid = sid;
  g_prev_chosen = pick;
  S.steps.push_back({h, sid, en, pick});
  if (g_log)
    fprintf(stderr, "step %zu: state %d enabled", idx, sid), [&]
    { for (int e : en) fprintf(stderr, " %d", e); }(),
        fprintf(stderr, " -> thread %d (%s)\n", pick, S.th[pick]->pc.c_str());
  S.current = pick;
  S.th[pick]->cond.notify_all();
}
static void update_pc(LT &me);
// the running thread announces its pending operation and hands the baton on
static void yield_here(LT &me, bool may_throw = true)
{
  if (tls_abort_pending)
  {
    if (!may_throw)
      return;
    tls_abort_pending = false;
    throw abort_run();
  }
  S.yields++;
  real_ulock lk(S.M);
  update_pc(me);
  schedule_next();
  me.cond.wait(lk, [&]
               { return S.current == me.id || S.aborting; });
  if (S.aborting)
  {
    if (!may_throw)
    {
      tls_abort_pending = true;
      return;
    }
    throw abort_run();
  }
}
static LT &self()
{
  if (tls_id < 0)
  {
    fprintf(stderr, "scheduler: unregistered thread reached a scheduling point\n");
    _exit(4);
  }
  return *S.th[tls_id];
}

// ------------------------------------------------------------------ shim primitives
void wv::mutex::lock()
{
  if (!S.active)
  {
    holder = 0;
    return;
  }
  LT &me = self();
  me.pend = P_LOCK;
  me.m = this;
  yield_here(me);
  holder = me.id;
}
// releasing a mutex is a scheduling point too: whatever the thread does next, unsynchronised, can be
// overtaken by a thread that was waiting for the mutex (or by anybody else)
void wv::mutex::unlock()
{
  holder = -1;
  if (!S.active || tls_id < 0 || S.aborting || std::uncaught_exceptions() > 0)
    return;
  LT &me = *S.th[tls_id];
  me.pend = P_PLAIN;
  me.tag = "unlocked";
  yield_here(me, false);
}
bool wv::mutex::try_lock()
{
  if (holder != -1)
    return false;
  holder = S.active ? self().id : 0;
  return true;
}
#pragma push_macro("mutex")
#undef mutex
static wv::wv_mutex *mutex_of(std::unique_lock<wv::wv_mutex> &lk) { return lk.mutex(); }
#pragma pop_macro("mutex")
static bool wait_impl(wv::condition_variable *cv, std::unique_lock<wv::mutex> &lk, bool timed);
void wv::condition_variable::wait(std::unique_lock<wv::mutex> &lk) { wait_impl(this, lk, false); }
std::cv_status wv::condition_variable::wait_timed(std::unique_lock<wv::mutex> &lk)
{
  return wait_impl(this, lk, true) ? std::cv_status::timeout : std::cv_status::no_timeout;
}
// returns true when the wait ended without a notification (time-out / spurious)
static bool wait_impl(wv::condition_variable *cvp, std::unique_lock<wv::mutex> &lk, bool timed)
{
  std::vector<int> &waiters = cvp->waiters;
  if (!S.active)
    return timed;
  LT &me = self();
  wv::mutex *m = mutex_of(lk);
  // scheduling point on entry, with the mutex still held: between the caller's predicate test and
  // the atomic release-and-enqueue of the wait.  A notifier that holds the mutex cannot run here;
  // one that does not can - which is how a lost wake-up becomes visible.
  me.pend = P_PLAIN;
  me.tag = "prewait";
  yield_here(me);
  m->holder = -1;
  if (std::find(waiters.begin(), waiters.end(), me.id) == waiters.end())
    waiters.push_back(me.id);
  me.pend = P_CVWAKE;
  me.m = m;
  me.cv = cvp;
  me.timed = timed;
  try
  {
    yield_here(me);
  }
  catch (...)
  {
    waiters.erase(std::remove(waiters.begin(), waiters.end(), me.id), waiters.end());
    m->holder = me.id; // unique_lock believes it owns the mutex and will unlock it while unwinding
    throw;
  }
  bool unnotified = std::find(waiters.begin(), waiters.end(), me.id) != waiters.end();
  waiters.erase(std::remove(waiters.begin(), waiters.end(), me.id), waiters.end());
  m->holder = me.id;
  me.timed = false;
  return unnotified;
}
void wv::condition_variable::notify_all() noexcept { waiters.clear(); }
void wv::condition_variable::notify_one() noexcept
{
  if (!waiters.empty())
    waiters.erase(waiters.begin());
}
void wv::thread::start(std::function<void()> fn)
{
  LT &parent = self();
  int id;
  {
    real_ulock lk(S.M);
    id = (int)S.th.size();
    S.th.emplace_back(new LT());
    S.th[id]->id = id;
    S.th[id]->pend = P_PLAIN;
    S.th[id]->tag = "start";
    S.th[id]->pc = "st";
    S.th[id]->has_real = true;
    S.th[id]->real = real_thread([id, fn]()
                                 {
      tls_id = id;
      tls_abort_pending = false;
      LT &me = *S.th[id];
      try
      {
        {
          real_ulock lk2(S.M);
          me.cond.wait(lk2, [&] { return S.current == id || S.aborting; });
          if (S.aborting)
            throw abort_run();
        }
        fn();
      }
      catch (abort_run &)
      {
      }
      real_ulock lk3(S.M);
      me.pend = P_FIN;
      me.pc = "done";
      if (!S.aborting)
        schedule_next(); });
  }
  lid = id;
  parent.pend = P_PLAIN;
  parent.tag = "spawned";
  yield_here(parent);
}
void wv::thread::join()
{
  LT &me = self();
  me.pend = P_JOIN;
  me.jt = lid;
  yield_here(me);
  S.joins_done++;
  lid = -1;
}
static std::set<std::string> g_tags_seen;
static void point_hook(const char *tag, int arg)
{
  if (!S.active)
    return;
  g_tags_seen.insert(tag);
  LT &me = self();
  me.pend = P_PLAIN;
  me.tag = tag;
  me.arg = arg;
  yield_here(me);
}

// ------------------------------------------------------------------ the system under test
static int g_T = 2, g_n = 70;
static bool g_enc = true;
static int DEC_PAD = 5; // last byte of the body when decrypting (bytes stripped by the final export); 1..10 or 16
struct RecMode : public Aesmode
{
  int stream;
  long seq = 0;
  static const u8_t zero[16];
  RecMode(int s) : Aesmode(zero), stream(s) {}
  u8_t *last = nullptr;
  void runcry(u8_t *block) override
  {
    last = block;
    point_hook("cry", stream);
    block[2]++;
    block[3] = stream;
    block[4] = (u8_t)(seq >> 8);
    block[5] = (u8_t)seq;
    seq++;
  }
};
const u8_t RecMode::zero[16] = {0};
static std::vector<RecMode *> g_modes;
static FILE *g_fin = nullptr, *g_fout = nullptr;
static int g_outfd = -1;
static std::string g_lstate = "NODATA";
static int g_nload = 1;
static std::vector<int> g_cur;

static std::vector<u8_t> make_input()
{
  // block k: [k_hi, k_lo, cnt=0, s=99, q_hi=0, q_lo=99, 0xEE...]; decrypt: last byte of the body = pad
  std::vector<u8_t> v(g_n);
  for (int i = 0; i < g_n; ++i)
  {
    int k = i / 16, j = i % 16;
    v[i] = j == 0 ? (u8_t)(k >> 8) : j == 1 ? (u8_t)k
                                 : j == 2   ? 0
                                 : j == 3   ? 99
                                 : j == 4   ? 0
                                 : j == 5   ? 99
                                            : 0xEE;
  }
  if (!g_enc && g_n > 0)
    v[g_n - 1] = DEC_PAD;
  return v;
}
static int total_blocks() { return g_enc ? g_n / 16 + 1 : g_n / 16; }
static std::string block_json(const u8_t *b)
{
  int k, cnt, s, q;
  if (b[0] == 16 && b[1] == 16 && b[15] == 16 && b[6] == 16)
  { // the pad-only block of an encryption
    k = total_blocks() - 1;
    cnt = b[2] - 16;
    s = cnt ? b[3] : 99;
    q = cnt ? ((b[4] << 8) | b[5]) : 99;
  }
  else
  {
    k = (b[0] << 8) | b[1];
    cnt = b[2];
    s = b[3];
    q = (b[4] << 8) | b[5];
  }
  return "{\"k\":" + std::to_string(k) + ",\"cnt\":" + std::to_string(cnt) + ",\"s\":" + std::to_string(s) + ",\"q\":" + std::to_string(q) + "}";
}

struct wv_probe
{
  // works whether the singleton is held in a raw pointer or in a smart pointer
  template <class P>
  static buffergroup *raw(P &p)
  {
    if constexpr (std::is_pointer_v<P>)
      return p;
    else
      return p.get();
  }
  static buffergroup *grp() { return raw(buffergroup::instance); }
  static std::string state_json(bool terminal)
  {
    buffergroup *g = grp();
    int T = g_T;
    const char *stn[] = {"EMPTY", "UPDATING", "READY", "INV"};
    std::string s = "{";
    auto tid = [&](int lid)
    { return lid < 0 ? T + 1 : lid == 0 ? T
                                        : lid - 1; };
    s += "\"st\":[";
    for (int i = 0; i < T; ++i)
      s += std::string(i ? "," : "") + "\"" + stn[g->ctrl[i].state] + "\"";
    s += "],\"mtx\":[";
    for (int i = 0; i < T; ++i)
      s += (i ? "," : "") + std::to_string(tid(g->ctrl[i].lock.holder));
    auto setjson = [&](std::vector<int> w)
    {
      std::sort(w.begin(), w.end());
      std::string r = "[";
      for (size_t j = 0; j < w.size(); ++j)
        r += (j ? "," : "") + std::to_string(tid(w[j]));
      return r + "]";
    };
    s += "],\"cvR\":[";
    for (int i = 0; i < T; ++i)
      s += (i ? "," : "") + setjson(g->ctrl[i].cv_ready.waiters);
    s += "],\"cvU\":[";
    for (int i = 0; i < T; ++i)
      s += (i ? "," : "") + setjson(g->ctrl[i].cv_update.waiters);
    s += "],\"buf\":[";
    for (int i = 0; i < T; ++i)
    {
      iobuffer &b = g->buflst[i];
      s += std::string(i ? "," : "") + "{\"total\":" + std::to_string(b.total) + ",\"now\":" + std::to_string(b.now) + ",\"final\":" + (b.isfinal ? "true" : "false") + ",\"data\":[";
      for (u32_t j = 0; j < b.total && j < iobuffer::BUF_SZ; ++j)
        s += (j ? "," : "") + block_json(b.b[j]);
      s += "]}";
    }
    s += "],\"turn\":" + std::to_string(g->turn) + ",\"over\":" + (g->over ? "true" : "false") + ",\"live\":" + std::to_string((int)bufferctrl::live_num);
    s += ",\"nload\":" + std::to_string(g_nload) + ",\"lstate\":\"" + g_lstate + "\"";
    // output written so far (the stream is unbuffered)
    off_t olen = lseek(g_outfd, 0, SEEK_END);
    std::vector<u8_t> ob(olen + 16, 0);
    if (olen > 0 && pread(g_outfd, ob.data(), olen, 0) != olen)
      _exit(3);
    s += ",\"out\":[";
    for (off_t o = 0; o < olen; o += 16)
      s += (o ? "," : "") + block_json(ob.data() + o);
    s += "],\"outlen\":" + std::to_string((long)olen) + ",\"hist\":[";
    for (int i = 0; i < T; ++i)
      s += (i ? "," : "") + std::to_string(g_modes[i]->seq);
    s += "],\"pcw\":[";
    for (int i = 0; i < T; ++i)
      s += std::string(i ? "," : "") + "\"" + ((int)S.th.size() > i + 1 ? S.th[i + 1]->pc : std::string("st")) + "\"";
    s += "],\"pcio\":\"" + (terminal ? std::string("done") : S.th[0]->pc) + "\",\"cur\":[";
    for (int i = 0; i < T; ++i)
      s += (i ? "," : "") + std::to_string(g_cur[i]);
    s += "],\"born\":" + std::to_string((int)S.th.size() - 1) + ",\"nj\":" + std::to_string(std::min(S.joins_done, T - 1)) + "}";
    return s;
  }
  static int cur_index(int i, u8_t *p) { return (int)((p - &grp()->buflst[i].b[0][0]) / 16) + 1; }
  static void reset_process_state()
  {
    buffergroup::del_instance();
    bufferctrl::live_num = 0;
  }
};
static std::string capture_state(bool terminal) { return wv_probe::state_json(terminal); }

// program-point names of spec/Pipeline.tla from (pending operation, last hook tag, previous name)
static void update_pc(LT &me)
{
  std::string prev = me.pc, pc;
  bool io = me.id == 0;
  if (io)
  {
    if (prev == "bu" && !(me.pend == P_PLAIN && me.tag == "bu"))
      g_lstate = "NODATA";
    if (me.pend == P_JOIN)
      pc = "join";
    else if (me.pend == P_LOCK)
      pc = (prev == "sp" || prev == "ti") ? "wu0" : (prev == "bu" || prev == "ex1" || prev == "ld1") ? "sr0"
                                                                                                      : "lock?" + prev;
    else if (me.tag == "unlocked")
      pc = (prev == "wu1" || prev == "wuw") ? "wu2" : prev == "sr1" ? "sr2"
                                                                    : "unlocked?" + prev;
    else if (me.pend == P_CVWAKE)
      pc = "wuw";
    else if (me.tag == "prewait")
      pc = "wup";
    else if (me.tag == "begin" || me.tag == "spawned")
      pc = "sp";
    else if (me.tag == "wu")
      pc = "wu1";
    else if (me.tag == "sr")
      pc = "sr1";
    else
    {
      pc = me.tag; // bu ex0 ex1 ld0 ld1 ti
      if (me.tag == "ld1")
      {
        static const char *ls[] = {"FULL", "FINAL", "NODATA"};
        g_lstate = ls[me.arg >= 0 && me.arg < 3 ? me.arg : 2];
        g_nload++;
      }
    }
  }
  else
  {
    int i = me.id - 1;
    if (me.pend == P_LOCK)
      pc = prev == "st" ? "g0" : prev == "ge" ? "su0"
                             : prev == "su2"  ? "wr0"
                                              : "lock?" + prev;
    else if (me.tag == "unlocked")
      pc = (prev == "g1" || prev == "gw") ? "g2" : prev == "su1"                  ? "su2"
                                               : (prev == "wr1" || prev == "wrw") ? "wr2"
                                                                                  : "unlocked?" + prev;
    else if (me.pend == P_CVWAKE)
      pc = prev == "gp" ? "gw" : prev == "wrp" ? "wrw"
                                               : "wait?" + prev;
    else if (me.tag == "prewait")
      pc = (prev == "g1" || prev == "gw") ? "gp" : (prev == "wr1" || prev == "wrw") ? "wrp"
                                                                                     : "prewait?" + prev;
    else if (me.tag == "wr")
      pc = prev == "g0" ? "g1" : prev == "wr0" ? "wr1"
                                               : "wr?" + prev;
    else if (me.tag == "su")
      pc = "su1";
    else if (me.tag == "cry")
    {
      pc = "cry";
      if (i >= 0 && i < (int)g_cur.size())
        g_cur[i] = wv_probe::cur_index(i, g_modes[i]->last);
    }
    else
      pc = me.tag; // ge chk start(st)
    if (pc == "start")
      pc = "st";
  }
  me.pc = pc;
}

// ------------------------------------------------------------------ state table / graph
static std::unordered_map<unsigned long long, int> g_state_ids;
static std::vector<std::string> g_states;
static std::vector<std::string> g_sink; // "", "done", "deadlock"
static int intern_state(const std::string &js, unsigned long long h)
{
  auto it = g_state_ids.find(h);
  if (it != g_state_ids.end())
  {
    if (g_states[it->second] != js)
    {
      fprintf(stderr, "state hash collision\n");
      _exit(4);
    }
    return it->second;
  }
  int id = (int)g_states.size();
  g_state_ids[h] = id;
  g_states.push_back(js);
  g_expanded.push_back(0);
  g_sink.push_back("");
  return id;
}

// nodes carry their successor lists [[thread, to], ...] so that TLC can follow edges without an index
static void write_graph(const std::string &outp)
{
  std::vector<std::string> succ(g_states.size());
  for (auto &e : g_edges)
  {
    std::string &x = succ[std::get<0>(e)];
    x += (x.empty() ? "[" : ",[") + std::to_string(std::get<1>(e)) + "," + std::to_string(std::get<2>(e)) + "]";
  }
  FILE *fn = fopen((outp + ".nodes.ndjson").c_str(), "w");
  for (size_t i = 0; i < g_states.size(); ++i)
    fprintf(fn, "{\"id\":%zu,\"sink\":\"%s\",\"succ\":[%s],\"s\":%s}\n", i, g_sink[i].c_str(), succ[i].c_str(), g_states[i].c_str());
  fclose(fn);
}

// ------------------------------------------------------------------ one run
struct RunResult
{
  std::vector<Step> steps;
  int final_state = -1; // id of the terminal state when the run completed
  bool deadlock = false;
};
static RunResult run_once(const std::vector<int> &prefix)
{
  // fresh process state
  for (auto m : g_modes)
    delete m;
  g_modes.clear();
  g_cur.assign(g_T, 0);
  g_lstate = "NODATA";
  g_nload = 1;
  S.th.clear();
  S.th.reserve(64);
  S.steps.clear();
  S.prefix = prefix;
  S.aborting = S.deadlocked = false;
  S.joins_done = 0;
  g_prev_sid = -1;
  g_cut = false;
  std::vector<u8_t> in = make_input();
  g_fin = wv_memfile(in);
  g_fout = wv_emptyfile();
  setvbuf(g_fout, NULL, _IONBF, 0);
  g_outfd = fileno(g_fout);
  buffergroup *grp = buffergroup::get_instance();
  grp->set_buffergroup(g_T, g_fin, g_fout, g_enc);
  Aesmode **modes = new Aesmode *[g_T];
  for (int i = 0; i < g_T; ++i)
  {
    g_modes.push_back(new RecMode(i));
    modes[i] = g_modes[i];
  }
  multicry_master *crym = new multicry_master(g_T);
  S.th.emplace_back(new LT());
  S.th[0]->id = 0;
  S.th[0]->pc = "sp";
  S.th[0]->tag = "begin";
  tls_id = 0;
  tls_abort_pending = false;
  S.current = 0;
  S.active = true;
  RunResult rr;
  bool completed = false;
  try
  {
    point_hook("begin", 0); // the initial state: nothing has happened yet
    crym->run_multicry(modes, [](std::string, size_t) {});
    completed = true;
  }
  catch (abort_run &)
  {
  }
  {
    real_ulock lk(S.M);
    S.th[0]->pend = P_FIN;
    if (completed)
    {
      std::string js = capture_state(true);
      rr.final_state = intern_state(js, fnv(js));
      g_sink[rr.final_state] = "done";
      if (g_prev_sid >= 0)
        g_edges.insert(std::make_tuple(g_prev_sid, g_prev_chosen, rr.final_state));
      g_prev_sid = -1;
    }
    else
    {
      S.aborting = true;
      for (auto &t : S.th)
        t->cond.notify_all();
    }
  }
  for (auto &t : S.th)
    if (t->has_real && t->real.joinable())
      t->real.join();
  S.active = false;
  rr.steps = S.steps;
  rr.deadlock = S.deadlocked;
  if (rr.deadlock && !rr.steps.empty())
    g_sink[rr.steps.back().state_id] = "deadlock";
  delete crym;
  delete[] modes;
  wv_probe::reset_process_state();
  fclose(g_fin);
  fclose(g_fout);
  return rr;
}

#include <signal.h>
// async-signal-safe: no malloc, no stdio (the crash may have happened inside malloc)
static char g_crashbuf[1 << 16];
static void crash_handler(int sig)
{
  size_t n = 0;
  auto puts_ = [&](const char *t)
  { while (*t && n + 1 < sizeof g_crashbuf) g_crashbuf[n++] = *t++; };
  auto putn = [&](long v)
  {
    char tmp[24];
    int k = 0;
    bool neg = v < 0;
    if (neg)
      v = -v;
    do
      tmp[k++] = (char)('0' + v % 10), v /= 10;
    while (v && k < 22);
    if (neg)
      tmp[k++] = '-';
    while (k && n + 1 < sizeof g_crashbuf)
      g_crashbuf[n++] = tmp[--k];
  };
  puts_("{\"e\":\"crash\",\"signal\":");
  putn(sig);
  puts_(",\"schedule\":\"");
  size_t cnt = S.steps.size();
  for (size_t i = 0; i < cnt && n + 32 < sizeof g_crashbuf; ++i)
  {
    if (i)
      puts_(",");
    putn(S.steps[i].chosen);
  }
  puts_("\"}\n");
  ssize_t w = write(1, g_crashbuf, n);
  (void)w;
  _exit(8);
}
static void watchdog()
{
  long last = -1;
  int same = 0;
  for (;;)
  {
    sleep(1);
    long y = S.yields.load();
    if (S.active && y == last)
    {
      if (++same >= 10)
      {
        // a thread runs without ever reaching a scheduling point: endless loop in the code under test
        std::string sched;
        for (auto &st : S.steps)
          sched += (sched.empty() ? "" : ",") + std::to_string(st.chosen);
        printf("{\"e\":\"stuck\",\"schedule\":\"%s\"}\n", sched.c_str());
        fflush(stdout);
        _exit(7);
      }
    }
    else
      same = 0;
    last = y;
  }
}

int main(int argc, char **argv)
{
  if (argc < 6)
  {
    fprintf(stderr, "usage: see source\n");
    return 2;
  }
  std::string mode = argv[1];
  g_T = atoi(argv[2]);
  g_enc = std::string(argv[3]) == "enc";
  g_n = atoi(argv[4]);
  if (getenv("WV_DEC_PAD"))
    DEC_PAD = atoi(getenv("WV_DEC_PAD"));
  wv_point_fn = point_hook;
  signal(SIGSEGV, crash_handler);
  signal(SIGBUS, crash_handler);
  signal(SIGFPE, crash_handler);
  signal(SIGABRT, crash_handler);
  real_thread(watchdog).detach();
  if (mode == "explore")
  {
    S.spurious = atoi(argv[5]) != 0;
    std::string outp = argv[6];
    long maxstates = argc > 7 ? atol(argv[7]) : 2000000;
    g_explore = true;
    g_stack.push_back({});
    long runs = 0, total_steps = 0, deadlock_runs = 0;
    bool truncated = false;
    while (!g_stack.empty())
    {
      std::vector<int> prefix = g_stack.back();
      g_stack.pop_back();
      RunResult rr = run_once(prefix);
      ++runs;
      total_steps += rr.steps.size();
      if (rr.deadlock)
        ++deadlock_runs;
      if ((long)g_states.size() > maxstates)
      {
        truncated = true;
        break;
      }
    }
    write_graph(outp);
    {
      std::string tg;
      for (auto &t : g_tags_seen)
        tg += (tg.empty() ? "" : " ") + t;
      printf("{\"e\":\"tags\",\"seen\":\"%s\"}\n", tg.c_str());
    }
    printf("{\"e\":\"explored\",\"T\":%d,\"dir\":\"%s\",\"n\":%d,\"S\":%u,\"spurious\":%d,\"states\":%zu,\"edges\":%zu,\"runs\":%ld,\"steps\":%ld,\"deadlock_runs\":%ld,\"truncated\":%d}\n",
           g_T, argv[3], g_n, iobuffer::sum, (int)S.spurious, g_states.size(), g_edges.size(), runs, total_steps, deadlock_runs, (int)truncated);
    return 0;
  }
  if (mode == "replay")
  {
    S.spurious = atoi(argv[5]) != 0;
    std::vector<int> pre;
    if (argc > 6)
    {
      std::stringstream ss(argv[6]);
      std::string tok;
      while (std::getline(ss, tok, ','))
        if (!tok.empty())
          pre.push_back(atoi(tok.c_str()));
    }
    g_log = true;
    RunResult rr = run_once(pre);
    for (auto &st : rr.steps)
      printf("{\"e\":\"step\",\"state\":%s,\"chosen\":%d}\n", g_states[st.state_id].c_str(), st.chosen);
    if (rr.final_state >= 0)
      printf("{\"e\":\"final\",\"state\":%s}\n", g_states[rr.final_state].c_str());
    printf("{\"e\":\"replayed\",\"deadlock\":%d,\"steps\":%zu}\n", (int)rr.deadlock, rr.steps.size());
    return 0;
  }
  if (mode == "pct")
  {
    int runs = atoi(argv[5]);
    std::string outp = argv[6];
    S.pct = true;
    S.rng.seed(wv_seed() * 2654435761ULL + g_T);
    FILE *ft = fopen((outp + ".paths.ndjson").c_str(), "w");
    long dl = 0;
    for (int r = 0; r < runs; ++r)
    {
      S.prio.assign(g_T + 1, 0);
      for (int i = 0; i <= g_T; ++i)
        S.prio[i] = 100 + (int)(S.rng() % 1000);
      S.change_at.clear();
      for (int c = 0; c < 3; ++c)
        S.change_at.push_back((int)(S.rng() % 400));
      RunResult rr = run_once({});
      if (rr.deadlock)
        ++dl;
      std::string path = "[";
      for (size_t i = 0; i < rr.steps.size(); ++i)
        path += (i ? "," : "") + std::string("[") + std::to_string(rr.steps[i].state_id) + "," + std::to_string(rr.steps[i].chosen) + "]";
      path += "]";
      fprintf(ft, "{\"run\":%d,\"deadlock\":%d,\"final\":%d,\"path\":%s}\n", r, (int)rr.deadlock, rr.final_state, path.c_str());
    }
    fclose(ft);
    write_graph(outp);
    printf("{\"e\":\"sampled\",\"T\":%d,\"dir\":\"%s\",\"n\":%d,\"S\":%u,\"runs\":%d,\"states\":%zu,\"edges\":%zu,\"deadlock_runs\":%ld}\n", g_T, argv[3], g_n, iobuffer::sum, runs, g_states.size(), g_edges.size(), dl);
    return 0;
  }
  return 2;
}
