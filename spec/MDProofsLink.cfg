
