#!/bin/bash
# usage: lib/refactortest.sh <worktree-with-a-behaviour-preserving-change> [check ids...]
# runs the quick checks against that tree (not /repo); every check must stay green (exit 0).
W=$1; shift
name=$(basename $W)
S=/var/tmp/wv-ref/$name; rm -rf $S; mkdir -p $S
checks="$@"; [ -z "$checks" ] && checks="C01 C02 C03 C04 C05 C06 C07 C08 C09 C10 C11 C12 C13 C14 C15 C16 C17 C18"
for c in $checks; do
  WV_REPO=$W WV_RUN=$S/run WV_EVIDENCE=$S/ev WV_REPLAYS=$S/rep /verif/check $c --tier quick > $S/$c.out 2>&1
  rc=$?
  echo "$name $c exit=$rc $(grep -c '^NOTE' $S/$c.out) notes $(grep -m1 '^VIOLATION\|^ERROR' -A1 $S/$c.out | tr '\n' ' ' | cut -c1-260)"
done
