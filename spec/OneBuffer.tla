------------------------------ MODULE OneBuffer ------------------------------
(***************************************************************************)
(* The hand-over protocol of ONE buffer of the pipeline, seen from that    *)
(* buffer: its control block (state word, mutex, the two condition         *)
(* variables), its cursor fields, its worker - and the I/O thread as a     *)
(* visitor that arrives, waits for the buffer, flushes / refills it, hands *)
(* it back and leaves for an arbitrary time (serving the other buffers).   *)
(*                                                                         *)
(* Purpose: the per-buffer guarantees of C14 (Exclusive, NoUnderflow, lock *)
(* discipline) for EVERY number of buffers.  The argument has two halves:  *)
(*  (1) this module satisfies them (TLC, complete: the state space is      *)
(*      finite - inputs of every length, any timing of the visits);        *)
(*  (2) for every buffer i the projection of Pipeline.tla onto buffer i is *)
(*      a behaviour of this module (refinement mapping in                  *)
(*      MC_PipelineProj.tla).  TLC checks (2) for T = 1, 2, 3 on the       *)
(*      unbounded-input model and on the state graphs explored from the    *)
(*      real code (T up to 16, sampled); that it holds for larger T rests  *)
(*      on the shape of Pipeline.tla: each of its actions touches the      *)
(*      variables of one buffer only, plus turn / over / lstate / live,    *)
(*      and the case split "this buffer / another buffer" is the same for  *)
(*      every T.                                                           *)
(* The actions mirror Pipeline.tla one to one (same program points), with  *)
(* the block data abstracted as in its Unbounded mode.                     *)
(***************************************************************************)
EXTENDS Naturals

CONSTANTS Gate, NotifyReady, NotifyUpdate, WaitLoop, ReadyTest, Spurious
MaxBlocks == 2

VARIABLES s,      \* state word: EMPTY UPDATING READY INV
          m,      \* mutex owner: "none" "w" "io"
          wR,     \* the worker is in the waiter set of cv_ready
          wU,     \* the I/O thread is in the waiter set of cv_update
          b,      \* cursor fields [total, now, final]
          pw,     \* worker program point (as in Pipeline.tla)
          pi,     \* I/O thread program point while it serves this buffer, else "away"
          ov,     \* the global "input exhausted" flag
          ls      \* kind of the load of the current visit (NODATA outside bu..sr1)
ovars == << s, m, wR, wU, b, pw, pi, ov, ls >>

Init == /\ s = "EMPTY" /\ m = "none" /\ wR = FALSE /\ wU = FALSE
        /\ b = [total |-> 0, now |-> 0, final |-> FALSE]
        /\ pw = "st" /\ pi = "away" /\ ov = FALSE /\ ls = "NODATA"

IOBusy == pi \in {"ex0", "ex1", "ld0", "ld1"}
WorkerOwns == s = "READY" /\ ~IOBusy
IOOwns == s \in {"EMPTY", "UPDATING"}
ReadyPred == s \in {"READY", "INV"}
UpdPred == s \in {"UPDATING", "EMPTY"}

\* ---- the worker ------------------------------------------------------------------
WStart == /\ pw = "st" /\ pw' = (IF Gate THEN "g0" ELSE "ge")
          /\ UNCHANGED << s, m, wR, wU, b, pi, ov, ls >>
WLock == /\ pw \in {"g0", "su0", "wr0"} /\ m = "none" /\ m' = "w"
         /\ pw' = (CASE pw = "g0" -> "g1" [] pw = "su0" -> "su1" [] pw = "wr0" -> "wr1")
         /\ UNCHANGED << s, wR, wU, b, pi, ov, ls >>
WWaitTest == /\ pw \in {"g1", "wr1"} /\ m = "w"
             /\ IF ReadyPred THEN pw' = (IF pw = "g1" THEN "g2" ELSE "wr2") /\ m' = "none"
                ELSE pw' = (IF pw = "g1" THEN "gp" ELSE "wrp") /\ m' = m
             /\ UNCHANGED << s, wR, wU, b, pi, ov, ls >>
WEnqueue == /\ pw \in {"gp", "wrp"} /\ m = "w"
            /\ m' = "none" /\ wR' = TRUE
            /\ pw' = (IF pw = "gp" THEN "gw" ELSE "wrw")
            /\ UNCHANGED << s, wU, b, pi, ov, ls >>
WWake == /\ pw \in {"gw", "wrw"} /\ (~wR \/ Spurious) /\ m = "none"
         /\ wR' = FALSE
         /\ IF ReadyPred \/ ~WaitLoop
            THEN pw' = (IF pw = "gw" THEN "g2" ELSE "wr2") /\ m' = m
            ELSE pw' = (IF pw = "gw" THEN "gp" ELSE "wrp") /\ m' = "w"
         /\ UNCHANGED << s, wU, b, pi, ov, ls >>
WGetEntry == /\ pw = "ge"
             /\ IF b.now < b.total THEN b' = [b EXCEPT !.now = @ + 1] /\ pw' = "cry"
                ELSE b' = b /\ pw' = "su0"
             /\ UNCHANGED << s, m, wR, wU, pi, ov, ls >>
WCry == /\ pw = "cry" /\ pw' = "ge"
        /\ UNCHANGED << s, m, wR, wU, b, pi, ov, ls >>
WSetUpdate == /\ pw = "su1" /\ m = "w"
              /\ IF s = "READY" \/ ~ReadyTest
                 THEN s' = "UPDATING" /\ wU' = (IF NotifyUpdate THEN FALSE ELSE wU)
                 ELSE UNCHANGED << s, wU >>
              /\ m' = "none" /\ pw' = "su2"
              /\ UNCHANGED << wR, b, pi, ov, ls >>
WAfterUnlock == /\ pw \in {"g2", "su2", "wr2"}
                /\ pw' = (CASE pw = "g2" -> "ge" [] pw = "su2" -> "wr0" [] pw = "wr2" -> "chk")
                /\ UNCHANGED << s, m, wR, wU, b, pi, ov, ls >>
WCheck == /\ pw = "chk"
          /\ IF s = "READY" /\ b.now < b.total THEN b' = [b EXCEPT !.now = @ + 1] /\ pw' = "cry"
             ELSE b' = b /\ pw' = "done"
          /\ UNCHANGED << s, m, wR, wU, pi, ov, ls >>
Worker == WStart \/ WLock \/ WWaitTest \/ WEnqueue \/ WWake \/ WGetEntry \/ WCry \/ WSetUpdate \/ WAfterUnlock \/ WCheck

\* ---- the I/O thread as a visitor ---------------------------------------------------------
\* it only ever comes (back) to a buffer that has not been retired
Arrive == /\ pi = "away" /\ s # "INV" /\ pi' = "wu0"
          /\ UNCHANGED << s, m, wR, wU, b, pw, ov, ls >>
\* while it is away the input may run out at another buffer
OverElsewhere == /\ pi = "away" /\ ~ov /\ ov' = TRUE
                 /\ UNCHANGED << s, m, wR, wU, b, pw, pi, ls >>
IOLock == /\ pi \in {"wu0", "sr0"} /\ m = "none" /\ m' = "io"
          /\ pi' = (IF pi = "wu0" THEN "wu1" ELSE "sr1")
          /\ UNCHANGED << s, wR, wU, b, pw, ov, ls >>
IOWaitTest == /\ pi = "wu1" /\ m = "io"
              /\ IF UpdPred THEN pi' = "wu2" /\ m' = "none" ELSE pi' = "wup" /\ m' = m
              /\ UNCHANGED << s, wR, wU, b, pw, ov, ls >>
IOEnqueue == /\ pi = "wup" /\ m = "io"
             /\ m' = "none" /\ wU' = TRUE /\ pi' = "wuw"
             /\ UNCHANGED << s, wR, b, pw, ov, ls >>
IOWake == /\ pi = "wuw" /\ (~wU \/ Spurious) /\ m = "none"
          /\ wU' = FALSE
          /\ IF UpdPred THEN pi' = "wu2" /\ m' = m ELSE pi' = "wup" /\ m' = "io"
          /\ UNCHANGED << s, wR, b, pw, ov, ls >>
AfterExport == IF ov THEN "sr0" ELSE "ld0"
IOBegin == /\ pi = "bu"
           /\ pi' = (IF s = "UPDATING" THEN "ex0" ELSE AfterExport)
           /\ ls' = "NODATA"
           /\ UNCHANGED << s, m, wR, wU, b, pw, ov >>
IOExport == /\ pi = "ex0" /\ pi' = "ex1"
            /\ UNCHANGED << s, m, wR, wU, b, pw, ov, ls >>
IOExportEnd == /\ pi = "ex1" /\ pi' = AfterExport
               /\ UNCHANGED << s, m, wR, wU, b, pw, ov, ls >>
IOLoad(kind, nb) == /\ pi = "ld0"
                    /\ b' = [total |-> nb, now |-> 0, final |-> (kind = "FINAL") \/ b.final]
                    /\ ls' = kind /\ pi' = "ld1"
                    /\ UNCHANGED << s, m, wR, wU, pw, ov >>
IOLoadEnd == /\ pi = "ld1" /\ ov' = (ls # "FULL") /\ pi' = "sr0"
             /\ UNCHANGED << s, m, wR, wU, b, pw, ls >>
IOSetReady == /\ pi = "sr1" /\ m = "io"
              /\ s' = (IF ls # "NODATA" THEN "READY" ELSE "INV")
              /\ wR' = (IF NotifyReady THEN FALSE ELSE wR)
              /\ m' = "none" /\ pi' = "sr2" /\ ls' = "NODATA"
              /\ UNCHANGED << wU, b, pw, ov >>
IOAfterUnlock == /\ pi = "wu2" /\ pi' = "bu"
                 /\ UNCHANGED << s, m, wR, wU, b, pw, ov, ls >>
Leave == /\ pi = "sr2" /\ pi' = "away"
         /\ UNCHANGED << s, m, wR, wU, b, pw, ov, ls >>
IOThread == Arrive \/ OverElsewhere \/ IOLock \/ IOWaitTest \/ IOEnqueue \/ IOWake \/ IOBegin \/ IOExport \/ IOExportEnd
            \/ (\E kind \in {"FULL", "FINAL"}, nb \in 1..MaxBlocks : IOLoad(kind, nb))
            \/ IOLoadEnd \/ IOSetReady \/ IOAfterUnlock \/ Leave

Next == Worker \/ IOThread
Spec == Init /\ [][Next]_ovars

\* ---- the per-buffer guarantees -------------------------------------------------------------
TypeOK == /\ s \in {"EMPTY", "UPDATING", "READY", "INV"} /\ m \in {"none", "w", "io"}
          /\ wR \in BOOLEAN /\ wU \in BOOLEAN /\ ov \in BOOLEAN /\ ls \in {"NODATA", "FULL", "FINAL"}
          /\ b.total \in 0..MaxBlocks /\ b.now \in 0..MaxBlocks /\ b.final \in BOOLEAN
WorkerAccessPending == \/ pw = "ge" /\ b.now < b.total
                       \/ pw = "cry"
                       \/ pw = "chk" /\ s = "READY" /\ b.now < b.total
Exclusive == (WorkerAccessPending => WorkerOwns) /\ (IOBusy => IOOwns)
NoUnderflow == (pi = "ex0" /\ b.final) => b.now > 0
LockDiscipline == /\ pw \in {"g1", "gp", "su1", "wr1", "wrp"} => m = "w"
                  /\ pi \in {"wu1", "wup", "sr1"} => m = "io"
\* ---- the per-buffer half of termination (C04) -------------------------------------------------
\* Fairness for the two threads WHILE THEY ARE HERE (strong, as in Pipeline.tla: a lock is only
\* intermittently free while the neighbour spins through spurious wake-ups); the arrivals of the
\* visitor and the end of input elsewhere are the environment's and carry no fairness.
Visit == IOLock \/ IOWaitTest \/ IOEnqueue \/ IOWake \/ IOBegin \/ IOExport \/ IOExportEnd
         \/ (\E kind \in {"FULL", "FINAL"}, nb \in 1..MaxBlocks : IOLoad(kind, nb))
         \/ IOLoadEnd \/ IOSetReady \/ IOAfterUnlock \/ Leave
FairSpec == Spec /\ SF_ovars(Worker) /\ SF_ovars(Visit)
\* every visit of the I/O thread ends: it is never stuck at this buffer
VisitEnds == (pi # "away") ~> (pi = "away")
\* once the buffer is retired its worker finishes
WorkerEnds == (s = "INV") ~> (pw = "done")
\* a loaded buffer is eventually handed back (transformed completely) or the visitor never returns for it:
\* the worker never sits on a READY buffer for ever
WorkerHandsBack == (s = "READY") ~> (s # "READY")
\* Together with "the I/O thread makes at most (number of chunks + T) visits" (each visit either
\* consumes a chunk of the finite input or retires a buffer) these give <>Done for every T.

\* a retired buffer is never revived, and the input never "un-ends"
Retired == [][(s = "INV" => s' = "INV") /\ (ov => ov')]_ovars
=============================================================================
