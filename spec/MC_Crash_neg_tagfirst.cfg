CONSTANTS Ts = {1}  NBs = {3}  HMs = {1}  Plan = "incremental"  ChunkBlocks = 2
SPECIFICATION Spec
INVARIANTS CrashSafe
CHECK_DEADLOCK FALSE
