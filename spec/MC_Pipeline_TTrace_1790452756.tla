---- MODULE MC_Pipeline_TTrace_1790452756 ----
EXTENDS Sequences, TLCExt, Toolbox, Naturals, TLC, MC_Pipeline

_expression ==
    LET MC_Pipeline_TEExpression == INSTANCE MC_Pipeline_TEExpression
    IN MC_Pipeline_TEExpression!expression
----

_trace ==
    LET MC_Pipeline_TETrace == INSTANCE MC_Pipeline_TETrace
    IN MC_Pipeline_TETrace!trace
----

_inv ==
    ~(
        TLCGet("level") = Len(_TETrace)
        /\
        over = (TRUE)
        /\
        cur = ((0 :> 2))
        /\
        st = ((0 :> "READY"))
        /\
        cvU = ((0 :> {1}))
        /\
        pcw = ((0 :> "done"))
        /\
        born = (1)
        /\
        turn = (0)
        /\
        pcio = ("wuw")
        /\
        out = (<<[k |-> 0, cnt |-> 1, s |-> 0, q |-> 0], [k |-> 1, cnt |-> 1, s |-> 0, q |-> 1], [k |-> 2, cnt |-> 1, s |-> 0, q |-> 2], [k |-> 3, cnt |-> 1, s |-> 0, q |-> 3]>>)
        /\
        mtx = ((0 :> 2))
        /\
        hist = ((0 :> 4))
        /\
        buf = ((0 :> [total |-> 0, now |-> 0, final |-> TRUE, data |-> <<>>]))
        /\
        lstate = ("FINAL")
        /\
        nload = (4)
        /\
        outlen = (64)
        /\
        nj = (0)
        /\
        cvR = ((0 :> {}))
        /\
        live = (1)
    )
----

_init ==
    /\ cvR = _TETrace[1].cvR
    /\ cur = _TETrace[1].cur
    /\ cvU = _TETrace[1].cvU
    /\ nj = _TETrace[1].nj
    /\ mtx = _TETrace[1].mtx
    /\ nload = _TETrace[1].nload
    /\ out = _TETrace[1].out
    /\ pcw = _TETrace[1].pcw
    /\ over = _TETrace[1].over
    /\ lstate = _TETrace[1].lstate
    /\ hist = _TETrace[1].hist
    /\ st = _TETrace[1].st
    /\ buf = _TETrace[1].buf
    /\ outlen = _TETrace[1].outlen
    /\ born = _TETrace[1].born
    /\ live = _TETrace[1].live
    /\ pcio = _TETrace[1].pcio
    /\ turn = _TETrace[1].turn
----

_next ==
    /\ \E i,j \in DOMAIN _TETrace:
        /\ \/ /\ j = i + 1
              /\ i = TLCGet("level")
        /\ cvR  = _TETrace[i].cvR
        /\ cvR' = _TETrace[j].cvR
        /\ cur  = _TETrace[i].cur
        /\ cur' = _TETrace[j].cur
        /\ cvU  = _TETrace[i].cvU
        /\ cvU' = _TETrace[j].cvU
        /\ nj  = _TETrace[i].nj
        /\ nj' = _TETrace[j].nj
        /\ mtx  = _TETrace[i].mtx
        /\ mtx' = _TETrace[j].mtx
        /\ nload  = _TETrace[i].nload
        /\ nload' = _TETrace[j].nload
        /\ out  = _TETrace[i].out
        /\ out' = _TETrace[j].out
        /\ pcw  = _TETrace[i].pcw
        /\ pcw' = _TETrace[j].pcw
        /\ over  = _TETrace[i].over
        /\ over' = _TETrace[j].over
        /\ lstate  = _TETrace[i].lstate
        /\ lstate' = _TETrace[j].lstate
        /\ hist  = _TETrace[i].hist
        /\ hist' = _TETrace[j].hist
        /\ st  = _TETrace[i].st
        /\ st' = _TETrace[j].st
        /\ buf  = _TETrace[i].buf
        /\ buf' = _TETrace[j].buf
        /\ outlen  = _TETrace[i].outlen
        /\ outlen' = _TETrace[j].outlen
        /\ born  = _TETrace[i].born
        /\ born' = _TETrace[j].born
        /\ live  = _TETrace[i].live
        /\ live' = _TETrace[j].live
        /\ pcio  = _TETrace[i].pcio
        /\ pcio' = _TETrace[j].pcio
        /\ turn  = _TETrace[i].turn
        /\ turn' = _TETrace[j].turn

\* Uncomment the ASSUME below to write the states of the error trace
\* to the given file in Json format. Note that you can pass any tuple
\* to `JsonSerialize`. For example, a sub-sequence of _TETrace.
    \* ASSUME
    \*     LET J == INSTANCE Json
    \*         IN J!JsonSerialize("MC_Pipeline_TTrace_1790452756.json", _TETrace)

=============================================================================

 Note that you can extract this module `MC_Pipeline_TEExpression`
  to a dedicated file to reuse `expression` (the module in the 
  dedicated `MC_Pipeline_TEExpression.tla` file takes precedence 
  over the module `MC_Pipeline_TEExpression` below).

---- MODULE MC_Pipeline_TEExpression ----
EXTENDS Sequences, TLCExt, Toolbox, Naturals, TLC, MC_Pipeline

expression == 
    [
        \* To hide variables of the `MC_Pipeline` spec from the error trace,
        \* remove the variables below.  The trace will be written in the order
        \* of the fields of this record.
        cvR |-> cvR
        ,cur |-> cur
        ,cvU |-> cvU
        ,nj |-> nj
        ,mtx |-> mtx
        ,nload |-> nload
        ,out |-> out
        ,pcw |-> pcw
        ,over |-> over
        ,lstate |-> lstate
        ,hist |-> hist
        ,st |-> st
        ,buf |-> buf
        ,outlen |-> outlen
        ,born |-> born
        ,live |-> live
        ,pcio |-> pcio
        ,turn |-> turn
        
        \* Put additional constant-, state-, and action-level expressions here:
        \* ,_stateNumber |-> _TEPosition
        \* ,_cvRUnchanged |-> cvR = cvR'
        
        \* Format the `cvR` variable as Json value.
        \* ,_cvRJson |->
        \*     LET J == INSTANCE Json
        \*     IN J!ToJson(cvR)
        
        \* Lastly, you may build expressions over arbitrary sets of states by
        \* leveraging the _TETrace operator.  For example, this is how to
        \* count the number of times a spec variable changed up to the current
        \* state in the trace.
        \* ,_cvRModCount |->
        \*     LET F[s \in DOMAIN _TETrace] ==
        \*         IF s = 1 THEN 0
        \*         ELSE IF _TETrace[s].cvR # _TETrace[s-1].cvR
        \*             THEN 1 + F[s-1] ELSE F[s-1]
        \*     IN F[_TEPosition - 1]
    ]

=============================================================================



Parsing and semantic processing can take forever if the trace below is long.
 In this case, it is advised to uncomment the module below to deserialize the
 trace from a generated binary file.

\*
\*---- MODULE MC_Pipeline_TETrace ----
\*EXTENDS IOUtils, TLC, MC_Pipeline
\*
\*trace == IODeserialize("MC_Pipeline_TTrace_1790452756.bin", TRUE)
\*
\*=============================================================================
\*

---- MODULE MC_Pipeline_TETrace ----
EXTENDS TLC, MC_Pipeline

trace == 
    <<
    ([over |-> FALSE,cur |-> (0 :> 0),st |-> (0 :> "EMPTY"),cvU |-> (0 :> {}),pcw |-> (0 :> "st"),born |-> 0,turn |-> 0,pcio |-> "sp",out |-> <<>>,mtx |-> (0 :> 2),hist |-> (0 :> 0),buf |-> (0 :> [total |-> 0, now |-> 0, final |-> FALSE, data |-> <<>>]),lstate |-> "NODATA",nload |-> 1,outlen |-> 0,nj |-> 0,cvR |-> (0 :> {}),live |-> 1]),
    ([over |-> FALSE,cur |-> (0 :> 0),st |-> (0 :> "EMPTY"),cvU |-> (0 :> {}),pcw |-> (0 :> "st"),born |-> 1,turn |-> 0,pcio |-> "sp",out |-> <<>>,mtx |-> (0 :> 2),hist |-> (0 :> 0),buf |-> (0 :> [total |-> 0, now |-> 0, final |-> FALSE, data |-> <<>>]),lstate |-> "NODATA",nload |-> 1,outlen |-> 0,nj |-> 0,cvR |-> (0 :> {}),live |-> 1]),
    ([over |-> FALSE,cur |-> (0 :> 0),st |-> (0 :> "EMPTY"),cvU |-> (0 :> {}),pcw |-> (0 :> "st"),born |-> 1,turn |-> 0,pcio |-> "wu0",out |-> <<>>,mtx |-> (0 :> 2),hist |-> (0 :> 0),buf |-> (0 :> [total |-> 0, now |-> 0, final |-> FALSE, data |-> <<>>]),lstate |-> "NODATA",nload |-> 1,outlen |-> 0,nj |-> 0,cvR |-> (0 :> {}),live |-> 1]),
    ([over |-> FALSE,cur |-> (0 :> 0),st |-> (0 :> "EMPTY"),cvU |-> (0 :> {}),pcw |-> (0 :> "st"),born |-> 1,turn |-> 0,pcio |-> "wu1",out |-> <<>>,mtx |-> (0 :> 1),hist |-> (0 :> 0),buf |-> (0 :> [total |-> 0, now |-> 0, final |-> FALSE, data |-> <<>>]),lstate |-> "NODATA",nload |-> 1,outlen |-> 0,nj |-> 0,cvR |-> (0 :> {}),live |-> 1]),
    ([over |-> FALSE,cur |-> (0 :> 0),st |-> (0 :> "EMPTY"),cvU |-> (0 :> {}),pcw |-> (0 :> "st"),born |-> 1,turn |-> 0,pcio |-> "wu2",out |-> <<>>,mtx |-> (0 :> 2),hist |-> (0 :> 0),buf |-> (0 :> [total |-> 0, now |-> 0, final |-> FALSE, data |-> <<>>]),lstate |-> "NODATA",nload |-> 1,outlen |-> 0,nj |-> 0,cvR |-> (0 :> {}),live |-> 1]),
    ([over |-> FALSE,cur |-> (0 :> 0),st |-> (0 :> "EMPTY"),cvU |-> (0 :> {}),pcw |-> (0 :> "st"),born |-> 1,turn |-> 0,pcio |-> "bu",out |-> <<>>,mtx |-> (0 :> 2),hist |-> (0 :> 0),buf |-> (0 :> [total |-> 0, now |-> 0, final |-> FALSE, data |-> <<>>]),lstate |-> "NODATA",nload |-> 1,outlen |-> 0,nj |-> 0,cvR |-> (0 :> {}),live |-> 1]),
    ([over |-> FALSE,cur |-> (0 :> 0),st |-> (0 :> "EMPTY"),cvU |-> (0 :> {}),pcw |-> (0 :> "st"),born |-> 1,turn |-> 0,pcio |-> "ld0",out |-> <<>>,mtx |-> (0 :> 2),hist |-> (0 :> 0),buf |-> (0 :> [total |-> 0, now |-> 0, final |-> FALSE, data |-> <<>>]),lstate |-> "NODATA",nload |-> 1,outlen |-> 0,nj |-> 0,cvR |-> (0 :> {}),live |-> 1]),
    ([over |-> FALSE,cur |-> (0 :> 0),st |-> (0 :> "EMPTY"),cvU |-> (0 :> {}),pcw |-> (0 :> "st"),born |-> 1,turn |-> 0,pcio |-> "ld1",out |-> <<>>,mtx |-> (0 :> 2),hist |-> (0 :> 0),buf |-> (0 :> [total |-> 2, now |-> 0, final |-> FALSE, data |-> <<[k |-> 0, cnt |-> 0, s |-> 99, q |-> 99], [k |-> 1, cnt |-> 0, s |-> 99, q |-> 99]>>]),lstate |-> "FULL",nload |-> 2,outlen |-> 0,nj |-> 0,cvR |-> (0 :> {}),live |-> 1]),
    ([over |-> FALSE,cur |-> (0 :> 0),st |-> (0 :> "EMPTY"),cvU |-> (0 :> {}),pcw |-> (0 :> "st"),born |-> 1,turn |-> 0,pcio |-> "sr0",out |-> <<>>,mtx |-> (0 :> 2),hist |-> (0 :> 0),buf |-> (0 :> [total |-> 2, now |-> 0, final |-> FALSE, data |-> <<[k |-> 0, cnt |-> 0, s |-> 99, q |-> 99], [k |-> 1, cnt |-> 0, s |-> 99, q |-> 99]>>]),lstate |-> "FULL",nload |-> 2,outlen |-> 0,nj |-> 0,cvR |-> (0 :> {}),live |-> 1]),
    ([over |-> FALSE,cur |-> (0 :> 0),st |-> (0 :> "EMPTY"),cvU |-> (0 :> {}),pcw |-> (0 :> "st"),born |-> 1,turn |-> 0,pcio |-> "sr1",out |-> <<>>,mtx |-> (0 :> 1),hist |-> (0 :> 0),buf |-> (0 :> [total |-> 2, now |-> 0, final |-> FALSE, data |-> <<[k |-> 0, cnt |-> 0, s |-> 99, q |-> 99], [k |-> 1, cnt |-> 0, s |-> 99, q |-> 99]>>]),lstate |-> "FULL",nload |-> 2,outlen |-> 0,nj |-> 0,cvR |-> (0 :> {}),live |-> 1]),
    ([over |-> FALSE,cur |-> (0 :> 0),st |-> (0 :> "EMPTY"),cvU |-> (0 :> {}),pcw |-> (0 :> "g0"),born |-> 1,turn |-> 0,pcio |-> "sr1",out |-> <<>>,mtx |-> (0 :> 1),hist |-> (0 :> 0),buf |-> (0 :> [total |-> 2, now |-> 0, final |-> FALSE, data |-> <<[k |-> 0, cnt |-> 0, s |-> 99, q |-> 99], [k |-> 1, cnt |-> 0, s |-> 99, q |-> 99]>>]),lstate |-> "FULL",nload |-> 2,outlen |-> 0,nj |-> 0,cvR |-> (0 :> {}),live |-> 1]),
    ([over |-> FALSE,cur |-> (0 :> 0),st |-> (0 :> "READY"),cvU |-> (0 :> {}),pcw |-> (0 :> "g0"),born |-> 1,turn |-> 0,pcio |-> "sr2",out |-> <<>>,mtx |-> (0 :> 2),hist |-> (0 :> 0),buf |-> (0 :> [total |-> 2, now |-> 0, final |-> FALSE, data |-> <<[k |-> 0, cnt |-> 0, s |-> 99, q |-> 99], [k |-> 1, cnt |-> 0, s |-> 99, q |-> 99]>>]),lstate |-> "FULL",nload |-> 2,outlen |-> 0,nj |-> 0,cvR |-> (0 :> {}),live |-> 1]),
    ([over |-> FALSE,cur |-> (0 :> 0),st |-> (0 :> "READY"),cvU |-> (0 :> {}),pcw |-> (0 :> "g0"),born |-> 1,turn |-> 0,pcio |-> "ti",out |-> <<>>,mtx |-> (0 :> 2),hist |-> (0 :> 0),buf |-> (0 :> [total |-> 2, now |-> 0, final |-> FALSE, data |-> <<[k |-> 0, cnt |-> 0, s |-> 99, q |-> 99], [k |-> 1, cnt |-> 0, s |-> 99, q |-> 99]>>]),lstate |-> "FULL",nload |-> 2,outlen |-> 0,nj |-> 0,cvR |-> (0 :> {}),live |-> 1]),
    ([over |-> FALSE,cur |-> (0 :> 0),st |-> (0 :> "READY"),cvU |-> (0 :> {}),pcw |-> (0 :> "g1"),born |-> 1,turn |-> 0,pcio |-> "ti",out |-> <<>>,mtx |-> (0 :> 0),hist |-> (0 :> 0),buf |-> (0 :> [total |-> 2, now |-> 0, final |-> FALSE, data |-> <<[k |-> 0, cnt |-> 0, s |-> 99, q |-> 99], [k |-> 1, cnt |-> 0, s |-> 99, q |-> 99]>>]),lstate |-> "FULL",nload |-> 2,outlen |-> 0,nj |-> 0,cvR |-> (0 :> {}),live |-> 1]),
    ([over |-> FALSE,cur |-> (0 :> 0),st |-> (0 :> "READY"),cvU |-> (0 :> {}),pcw |-> (0 :> "g1"),born |-> 1,turn |-> 0,pcio |-> "wu0",out |-> <<>>,mtx |-> (0 :> 0),hist |-> (0 :> 0),buf |-> (0 :> [total |-> 2, now |-> 0, final |-> FALSE, data |-> <<[k |-> 0, cnt |-> 0, s |-> 99, q |-> 99], [k |-> 1, cnt |-> 0, s |-> 99, q |-> 99]>>]),lstate |-> "FULL",nload |-> 2,outlen |-> 0,nj |-> 0,cvR |-> (0 :> {}),live |-> 1]),
    ([over |-> FALSE,cur |-> (0 :> 0),st |-> (0 :> "READY"),cvU |-> (0 :> {}),pcw |-> (0 :> "g2"),born |-> 1,turn |-> 0,pcio |-> "wu0",out |-> <<>>,mtx |-> (0 :> 2),hist |-> (0 :> 0),buf |-> (0 :> [total |-> 2, now |-> 0, final |-> FALSE, data |-> <<[k |-> 0, cnt |-> 0, s |-> 99, q |-> 99], [k |-> 1, cnt |-> 0, s |-> 99, q |-> 99]>>]),lstate |-> "FULL",nload |-> 2,outlen |-> 0,nj |-> 0,cvR |-> (0 :> {}),live |-> 1]),
    ([over |-> FALSE,cur |-> (0 :> 0),st |-> (0 :> "READY"),cvU |-> (0 :> {}),pcw |-> (0 :> "ge"),born |-> 1,turn |-> 0,pcio |-> "wu0",out |-> <<>>,mtx |-> (0 :> 2),hist |-> (0 :> 0),buf |-> (0 :> [total |-> 2, now |-> 0, final |-> FALSE, data |-> <<[k |-> 0, cnt |-> 0, s |-> 99, q |-> 99], [k |-> 1, cnt |-> 0, s |-> 99, q |-> 99]>>]),lstate |-> "FULL",nload |-> 2,outlen |-> 0,nj |-> 0,cvR |-> (0 :> {}),live |-> 1]),
    ([over |-> FALSE,cur |-> (0 :> 1),st |-> (0 :> "READY"),cvU |-> (0 :> {}),pcw |-> (0 :> "cry"),born |-> 1,turn |-> 0,pcio |-> "wu0",out |-> <<>>,mtx |-> (0 :> 2),hist |-> (0 :> 0),buf |-> (0 :> [total |-> 2, now |-> 1, final |-> FALSE, data |-> <<[k |-> 0, cnt |-> 0, s |-> 99, q |-> 99], [k |-> 1, cnt |-> 0, s |-> 99, q |-> 99]>>]),lstate |-> "FULL",nload |-> 2,outlen |-> 0,nj |-> 0,cvR |-> (0 :> {}),live |-> 1]),
    ([over |-> FALSE,cur |-> (0 :> 1),st |-> (0 :> "READY"),cvU |-> (0 :> {}),pcw |-> (0 :> "ge"),born |-> 1,turn |-> 0,pcio |-> "wu0",out |-> <<>>,mtx |-> (0 :> 2),hist |-> (0 :> 1),buf |-> (0 :> [total |-> 2, now |-> 1, final |-> FALSE, data |-> <<[k |-> 0, cnt |-> 1, s |-> 0, q |-> 0], [k |-> 1, cnt |-> 0, s |-> 99, q |-> 99]>>]),lstate |-> "FULL",nload |-> 2,outlen |-> 0,nj |-> 0,cvR |-> (0 :> {}),live |-> 1]),
    ([over |-> FALSE,cur |-> (0 :> 2),st |-> (0 :> "READY"),cvU |-> (0 :> {}),pcw |-> (0 :> "cry"),born |-> 1,turn |-> 0,pcio |-> "wu0",out |-> <<>>,mtx |-> (0 :> 2),hist |-> (0 :> 1),buf |-> (0 :> [total |-> 2, now |-> 2, final |-> FALSE, data |-> <<[k |-> 0, cnt |-> 1, s |-> 0, q |-> 0], [k |-> 1, cnt |-> 0, s |-> 99, q |-> 99]>>]),lstate |-> "FULL",nload |-> 2,outlen |-> 0,nj |-> 0,cvR |-> (0 :> {}),live |-> 1]),
    ([over |-> FALSE,cur |-> (0 :> 2),st |-> (0 :> "READY"),cvU |-> (0 :> {}),pcw |-> (0 :> "ge"),born |-> 1,turn |-> 0,pcio |-> "wu0",out |-> <<>>,mtx |-> (0 :> 2),hist |-> (0 :> 2),buf |-> (0 :> [total |-> 2, now |-> 2, final |-> FALSE, data |-> <<[k |-> 0, cnt |-> 1, s |-> 0, q |-> 0], [k |-> 1, cnt |-> 1, s |-> 0, q |-> 1]>>]),lstate |-> "FULL",nload |-> 2,outlen |-> 0,nj |-> 0,cvR |-> (0 :> {}),live |-> 1]),
    ([over |-> FALSE,cur |-> (0 :> 2),st |-> (0 :> "READY"),cvU |-> (0 :> {}),pcw |-> (0 :> "su0"),born |-> 1,turn |-> 0,pcio |-> "wu0",out |-> <<>>,mtx |-> (0 :> 2),hist |-> (0 :> 2),buf |-> (0 :> [total |-> 2, now |-> 2, final |-> FALSE, data |-> <<[k |-> 0, cnt |-> 1, s |-> 0, q |-> 0], [k |-> 1, cnt |-> 1, s |-> 0, q |-> 1]>>]),lstate |-> "FULL",nload |-> 2,outlen |-> 0,nj |-> 0,cvR |-> (0 :> {}),live |-> 1]),
    ([over |-> FALSE,cur |-> (0 :> 2),st |-> (0 :> "READY"),cvU |-> (0 :> {}),pcw |-> (0 :> "su1"),born |-> 1,turn |-> 0,pcio |-> "wu0",out |-> <<>>,mtx |-> (0 :> 0),hist |-> (0 :> 2),buf |-> (0 :> [total |-> 2, now |-> 2, final |-> FALSE, data |-> <<[k |-> 0, cnt |-> 1, s |-> 0, q |-> 0], [k |-> 1, cnt |-> 1, s |-> 0, q |-> 1]>>]),lstate |-> "FULL",nload |-> 2,outlen |-> 0,nj |-> 0,cvR |-> (0 :> {}),live |-> 1]),
    ([over |-> FALSE,cur |-> (0 :> 2),st |-> (0 :> "UPDATING"),cvU |-> (0 :> {}),pcw |-> (0 :> "su2"),born |-> 1,turn |-> 0,pcio |-> "wu0",out |-> <<>>,mtx |-> (0 :> 2),hist |-> (0 :> 2),buf |-> (0 :> [total |-> 2, now |-> 2, final |-> FALSE, data |-> <<[k |-> 0, cnt |-> 1, s |-> 0, q |-> 0], [k |-> 1, cnt |-> 1, s |-> 0, q |-> 1]>>]),lstate |-> "FULL",nload |-> 2,outlen |-> 0,nj |-> 0,cvR |-> (0 :> {}),live |-> 1]),
    ([over |-> FALSE,cur |-> (0 :> 2),st |-> (0 :> "UPDATING"),cvU |-> (0 :> {}),pcw |-> (0 :> "su2"),born |-> 1,turn |-> 0,pcio |-> "wu1",out |-> <<>>,mtx |-> (0 :> 1),hist |-> (0 :> 2),buf |-> (0 :> [total |-> 2, now |-> 2, final |-> FALSE, data |-> <<[k |-> 0, cnt |-> 1, s |-> 0, q |-> 0], [k |-> 1, cnt |-> 1, s |-> 0, q |-> 1]>>]),lstate |-> "FULL",nload |-> 2,outlen |-> 0,nj |-> 0,cvR |-> (0 :> {}),live |-> 1]),
    ([over |-> FALSE,cur |-> (0 :> 2),st |-> (0 :> "UPDATING"),cvU |-> (0 :> {}),pcw |-> (0 :> "su2"),born |-> 1,turn |-> 0,pcio |-> "wu2",out |-> <<>>,mtx |-> (0 :> 2),hist |-> (0 :> 2),buf |-> (0 :> [total |-> 2, now |-> 2, final |-> FALSE, data |-> <<[k |-> 0, cnt |-> 1, s |-> 0, q |-> 0], [k |-> 1, cnt |-> 1, s |-> 0, q |-> 1]>>]),lstate |-> "FULL",nload |-> 2,outlen |-> 0,nj |-> 0,cvR |-> (0 :> {}),live |-> 1]),
    ([over |-> FALSE,cur |-> (0 :> 2),st |-> (0 :> "UPDATING"),cvU |-> (0 :> {}),pcw |-> (0 :> "su2"),born |-> 1,turn |-> 0,pcio |-> "bu",out |-> <<>>,mtx |-> (0 :> 2),hist |-> (0 :> 2),buf |-> (0 :> [total |-> 2, now |-> 2, final |-> FALSE, data |-> <<[k |-> 0, cnt |-> 1, s |-> 0, q |-> 0], [k |-> 1, cnt |-> 1, s |-> 0, q |-> 1]>>]),lstate |-> "FULL",nload |-> 2,outlen |-> 0,nj |-> 0,cvR |-> (0 :> {}),live |-> 1]),
    ([over |-> FALSE,cur |-> (0 :> 2),st |-> (0 :> "UPDATING"),cvU |-> (0 :> {}),pcw |-> (0 :> "su2"),born |-> 1,turn |-> 0,pcio |-> "ex0",out |-> <<>>,mtx |-> (0 :> 2),hist |-> (0 :> 2),buf |-> (0 :> [total |-> 2, now |-> 2, final |-> FALSE, data |-> <<[k |-> 0, cnt |-> 1, s |-> 0, q |-> 0], [k |-> 1, cnt |-> 1, s |-> 0, q |-> 1]>>]),lstate |-> "NODATA",nload |-> 2,outlen |-> 0,nj |-> 0,cvR |-> (0 :> {}),live |-> 1]),
    ([over |-> FALSE,cur |-> (0 :> 2),st |-> (0 :> "UPDATING"),cvU |-> (0 :> {}),pcw |-> (0 :> "su2"),born |-> 1,turn |-> 0,pcio |-> "ex1",out |-> <<[k |-> 0, cnt |-> 1, s |-> 0, q |-> 0], [k |-> 1, cnt |-> 1, s |-> 0, q |-> 1]>>,mtx |-> (0 :> 2),hist |-> (0 :> 2),buf |-> (0 :> [total |-> 2, now |-> 2, final |-> FALSE, data |-> <<[k |-> 0, cnt |-> 1, s |-> 0, q |-> 0], [k |-> 1, cnt |-> 1, s |-> 0, q |-> 1]>>]),lstate |-> "NODATA",nload |-> 2,outlen |-> 32,nj |-> 0,cvR |-> (0 :> {}),live |-> 1]),
    ([over |-> FALSE,cur |-> (0 :> 2),st |-> (0 :> "UPDATING"),cvU |-> (0 :> {}),pcw |-> (0 :> "su2"),born |-> 1,turn |-> 0,pcio |-> "ld0",out |-> <<[k |-> 0, cnt |-> 1, s |-> 0, q |-> 0], [k |-> 1, cnt |-> 1, s |-> 0, q |-> 1]>>,mtx |-> (0 :> 2),hist |-> (0 :> 2),buf |-> (0 :> [total |-> 2, now |-> 2, final |-> FALSE, data |-> <<[k |-> 0, cnt |-> 1, s |-> 0, q |-> 0], [k |-> 1, cnt |-> 1, s |-> 0, q |-> 1]>>]),lstate |-> "NODATA",nload |-> 2,outlen |-> 32,nj |-> 0,cvR |-> (0 :> {}),live |-> 1]),
    ([over |-> FALSE,cur |-> (0 :> 2),st |-> (0 :> "UPDATING"),cvU |-> (0 :> {}),pcw |-> (0 :> "su2"),born |-> 1,turn |-> 0,pcio |-> "ld1",out |-> <<[k |-> 0, cnt |-> 1, s |-> 0, q |-> 0], [k |-> 1, cnt |-> 1, s |-> 0, q |-> 1]>>,mtx |-> (0 :> 2),hist |-> (0 :> 2),buf |-> (0 :> [total |-> 2, now |-> 0, final |-> FALSE, data |-> <<[k |-> 2, cnt |-> 0, s |-> 99, q |-> 99], [k |-> 3, cnt |-> 0, s |-> 99, q |-> 99]>>]),lstate |-> "FULL",nload |-> 3,outlen |-> 32,nj |-> 0,cvR |-> (0 :> {}),live |-> 1]),
    ([over |-> FALSE,cur |-> (0 :> 2),st |-> (0 :> "UPDATING"),cvU |-> (0 :> {}),pcw |-> (0 :> "su2"),born |-> 1,turn |-> 0,pcio |-> "sr0",out |-> <<[k |-> 0, cnt |-> 1, s |-> 0, q |-> 0], [k |-> 1, cnt |-> 1, s |-> 0, q |-> 1]>>,mtx |-> (0 :> 2),hist |-> (0 :> 2),buf |-> (0 :> [total |-> 2, now |-> 0, final |-> FALSE, data |-> <<[k |-> 2, cnt |-> 0, s |-> 99, q |-> 99], [k |-> 3, cnt |-> 0, s |-> 99, q |-> 99]>>]),lstate |-> "FULL",nload |-> 3,outlen |-> 32,nj |-> 0,cvR |-> (0 :> {}),live |-> 1]),
    ([over |-> FALSE,cur |-> (0 :> 2),st |-> (0 :> "UPDATING"),cvU |-> (0 :> {}),pcw |-> (0 :> "su2"),born |-> 1,turn |-> 0,pcio |-> "sr1",out |-> <<[k |-> 0, cnt |-> 1, s |-> 0, q |-> 0], [k |-> 1, cnt |-> 1, s |-> 0, q |-> 1]>>,mtx |-> (0 :> 1),hist |-> (0 :> 2),buf |-> (0 :> [total |-> 2, now |-> 0, final |-> FALSE, data |-> <<[k |-> 2, cnt |-> 0, s |-> 99, q |-> 99], [k |-> 3, cnt |-> 0, s |-> 99, q |-> 99]>>]),lstate |-> "FULL",nload |-> 3,outlen |-> 32,nj |-> 0,cvR |-> (0 :> {}),live |-> 1]),
    ([over |-> FALSE,cur |-> (0 :> 2),st |-> (0 :> "READY"),cvU |-> (0 :> {}),pcw |-> (0 :> "su2"),born |-> 1,turn |-> 0,pcio |-> "sr2",out |-> <<[k |-> 0, cnt |-> 1, s |-> 0, q |-> 0], [k |-> 1, cnt |-> 1, s |-> 0, q |-> 1]>>,mtx |-> (0 :> 2),hist |-> (0 :> 2),buf |-> (0 :> [total |-> 2, now |-> 0, final |-> FALSE, data |-> <<[k |-> 2, cnt |-> 0, s |-> 99, q |-> 99], [k |-> 3, cnt |-> 0, s |-> 99, q |-> 99]>>]),lstate |-> "FULL",nload |-> 3,outlen |-> 32,nj |-> 0,cvR |-> (0 :> {}),live |-> 1]),
    ([over |-> FALSE,cur |-> (0 :> 2),st |-> (0 :> "READY"),cvU |-> (0 :> {}),pcw |-> (0 :> "su2"),born |-> 1,turn |-> 0,pcio |-> "ti",out |-> <<[k |-> 0, cnt |-> 1, s |-> 0, q |-> 0], [k |-> 1, cnt |-> 1, s |-> 0, q |-> 1]>>,mtx |-> (0 :> 2),hist |-> (0 :> 2),buf |-> (0 :> [total |-> 2, now |-> 0, final |-> FALSE, data |-> <<[k |-> 2, cnt |-> 0, s |-> 99, q |-> 99], [k |-> 3, cnt |-> 0, s |-> 99, q |-> 99]>>]),lstate |-> "FULL",nload |-> 3,outlen |-> 32,nj |-> 0,cvR |-> (0 :> {}),live |-> 1]),
    ([over |-> FALSE,cur |-> (0 :> 2),st |-> (0 :> "READY"),cvU |-> (0 :> {}),pcw |-> (0 :> "su2"),born |-> 1,turn |-> 0,pcio |-> "wu0",out |-> <<[k |-> 0, cnt |-> 1, s |-> 0, q |-> 0], [k |-> 1, cnt |-> 1, s |-> 0, q |-> 1]>>,mtx |-> (0 :> 2),hist |-> (0 :> 2),buf |-> (0 :> [total |-> 2, now |-> 0, final |-> FALSE, data |-> <<[k |-> 2, cnt |-> 0, s |-> 99, q |-> 99], [k |-> 3, cnt |-> 0, s |-> 99, q |-> 99]>>]),lstate |-> "FULL",nload |-> 3,outlen |-> 32,nj |-> 0,cvR |-> (0 :> {}),live |-> 1]),
    ([over |-> FALSE,cur |-> (0 :> 2),st |-> (0 :> "READY"),cvU |-> (0 :> {}),pcw |-> (0 :> "wr0"),born |-> 1,turn |-> 0,pcio |-> "wu0",out |-> <<[k |-> 0, cnt |-> 1, s |-> 0, q |-> 0], [k |-> 1, cnt |-> 1, s |-> 0, q |-> 1]>>,mtx |-> (0 :> 2),hist |-> (0 :> 2),buf |-> (0 :> [total |-> 2, now |-> 0, final |-> FALSE, data |-> <<[k |-> 2, cnt |-> 0, s |-> 99, q |-> 99], [k |-> 3, cnt |-> 0, s |-> 99, q |-> 99]>>]),lstate |-> "FULL",nload |-> 3,outlen |-> 32,nj |-> 0,cvR |-> (0 :> {}),live |-> 1]),
    ([over |-> FALSE,cur |-> (0 :> 2),st |-> (0 :> "READY"),cvU |-> (0 :> {}),pcw |-> (0 :> "wr1"),born |-> 1,turn |-> 0,pcio |-> "wu0",out |-> <<[k |-> 0, cnt |-> 1, s |-> 0, q |-> 0], [k |-> 1, cnt |-> 1, s |-> 0, q |-> 1]>>,mtx |-> (0 :> 0),hist |-> (0 :> 2),buf |-> (0 :> [total |-> 2, now |-> 0, final |-> FALSE, data |-> <<[k |-> 2, cnt |-> 0, s |-> 99, q |-> 99], [k |-> 3, cnt |-> 0, s |-> 99, q |-> 99]>>]),lstate |-> "FULL",nload |-> 3,outlen |-> 32,nj |-> 0,cvR |-> (0 :> {}),live |-> 1]),
    ([over |-> FALSE,cur |-> (0 :> 2),st |-> (0 :> "READY"),cvU |-> (0 :> {}),pcw |-> (0 :> "wr2"),born |-> 1,turn |-> 0,pcio |-> "wu0",out |-> <<[k |-> 0, cnt |-> 1, s |-> 0, q |-> 0], [k |-> 1, cnt |-> 1, s |-> 0, q |-> 1]>>,mtx |-> (0 :> 2),hist |-> (0 :> 2),buf |-> (0 :> [total |-> 2, now |-> 0, final |-> FALSE, data |-> <<[k |-> 2, cnt |-> 0, s |-> 99, q |-> 99], [k |-> 3, cnt |-> 0, s |-> 99, q |-> 99]>>]),lstate |-> "FULL",nload |-> 3,outlen |-> 32,nj |-> 0,cvR |-> (0 :> {}),live |-> 1]),
    ([over |-> FALSE,cur |-> (0 :> 2),st |-> (0 :> "READY"),cvU |-> (0 :> {}),pcw |-> (0 :> "chk"),born |-> 1,turn |-> 0,pcio |-> "wu0",out |-> <<[k |-> 0, cnt |-> 1, s |-> 0, q |-> 0], [k |-> 1, cnt |-> 1, s |-> 0, q |-> 1]>>,mtx |-> (0 :> 2),hist |-> (0 :> 2),buf |-> (0 :> [total |-> 2, now |-> 0, final |-> FALSE, data |-> <<[k |-> 2, cnt |-> 0, s |-> 99, q |-> 99], [k |-> 3, cnt |-> 0, s |-> 99, q |-> 99]>>]),lstate |-> "FULL",nload |-> 3,outlen |-> 32,nj |-> 0,cvR |-> (0 :> {}),live |-> 1]),
    ([over |-> FALSE,cur |-> (0 :> 1),st |-> (0 :> "READY"),cvU |-> (0 :> {}),pcw |-> (0 :> "cry"),born |-> 1,turn |-> 0,pcio |-> "wu0",out |-> <<[k |-> 0, cnt |-> 1, s |-> 0, q |-> 0], [k |-> 1, cnt |-> 1, s |-> 0, q |-> 1]>>,mtx |-> (0 :> 2),hist |-> (0 :> 2),buf |-> (0 :> [total |-> 2, now |-> 1, final |-> FALSE, data |-> <<[k |-> 2, cnt |-> 0, s |-> 99, q |-> 99], [k |-> 3, cnt |-> 0, s |-> 99, q |-> 99]>>]),lstate |-> "FULL",nload |-> 3,outlen |-> 32,nj |-> 0,cvR |-> (0 :> {}),live |-> 1]),
    ([over |-> FALSE,cur |-> (0 :> 1),st |-> (0 :> "READY"),cvU |-> (0 :> {}),pcw |-> (0 :> "ge"),born |-> 1,turn |-> 0,pcio |-> "wu0",out |-> <<[k |-> 0, cnt |-> 1, s |-> 0, q |-> 0], [k |-> 1, cnt |-> 1, s |-> 0, q |-> 1]>>,mtx |-> (0 :> 2),hist |-> (0 :> 3),buf |-> (0 :> [total |-> 2, now |-> 1, final |-> FALSE, data |-> <<[k |-> 2, cnt |-> 1, s |-> 0, q |-> 2], [k |-> 3, cnt |-> 0, s |-> 99, q |-> 99]>>]),lstate |-> "FULL",nload |-> 3,outlen |-> 32,nj |-> 0,cvR |-> (0 :> {}),live |-> 1]),
    ([over |-> FALSE,cur |-> (0 :> 2),st |-> (0 :> "READY"),cvU |-> (0 :> {}),pcw |-> (0 :> "cry"),born |-> 1,turn |-> 0,pcio |-> "wu0",out |-> <<[k |-> 0, cnt |-> 1, s |-> 0, q |-> 0], [k |-> 1, cnt |-> 1, s |-> 0, q |-> 1]>>,mtx |-> (0 :> 2),hist |-> (0 :> 3),buf |-> (0 :> [total |-> 2, now |-> 2, final |-> FALSE, data |-> <<[k |-> 2, cnt |-> 1, s |-> 0, q |-> 2], [k |-> 3, cnt |-> 0, s |-> 99, q |-> 99]>>]),lstate |-> "FULL",nload |-> 3,outlen |-> 32,nj |-> 0,cvR |-> (0 :> {}),live |-> 1]),
    ([over |-> FALSE,cur |-> (0 :> 2),st |-> (0 :> "READY"),cvU |-> (0 :> {}),pcw |-> (0 :> "ge"),born |-> 1,turn |-> 0,pcio |-> "wu0",out |-> <<[k |-> 0, cnt |-> 1, s |-> 0, q |-> 0], [k |-> 1, cnt |-> 1, s |-> 0, q |-> 1]>>,mtx |-> (0 :> 2),hist |-> (0 :> 4),buf |-> (0 :> [total |-> 2, now |-> 2, final |-> FALSE, data |-> <<[k |-> 2, cnt |-> 1, s |-> 0, q |-> 2], [k |-> 3, cnt |-> 1, s |-> 0, q |-> 3]>>]),lstate |-> "FULL",nload |-> 3,outlen |-> 32,nj |-> 0,cvR |-> (0 :> {}),live |-> 1]),
    ([over |-> FALSE,cur |-> (0 :> 2),st |-> (0 :> "READY"),cvU |-> (0 :> {}),pcw |-> (0 :> "su0"),born |-> 1,turn |-> 0,pcio |-> "wu0",out |-> <<[k |-> 0, cnt |-> 1, s |-> 0, q |-> 0], [k |-> 1, cnt |-> 1, s |-> 0, q |-> 1]>>,mtx |-> (0 :> 2),hist |-> (0 :> 4),buf |-> (0 :> [total |-> 2, now |-> 2, final |-> FALSE, data |-> <<[k |-> 2, cnt |-> 1, s |-> 0, q |-> 2], [k |-> 3, cnt |-> 1, s |-> 0, q |-> 3]>>]),lstate |-> "FULL",nload |-> 3,outlen |-> 32,nj |-> 0,cvR |-> (0 :> {}),live |-> 1]),
    ([over |-> FALSE,cur |-> (0 :> 2),st |-> (0 :> "READY"),cvU |-> (0 :> {}),pcw |-> (0 :> "su1"),born |-> 1,turn |-> 0,pcio |-> "wu0",out |-> <<[k |-> 0, cnt |-> 1, s |-> 0, q |-> 0], [k |-> 1, cnt |-> 1, s |-> 0, q |-> 1]>>,mtx |-> (0 :> 0),hist |-> (0 :> 4),buf |-> (0 :> [total |-> 2, now |-> 2, final |-> FALSE, data |-> <<[k |-> 2, cnt |-> 1, s |-> 0, q |-> 2], [k |-> 3, cnt |-> 1, s |-> 0, q |-> 3]>>]),lstate |-> "FULL",nload |-> 3,outlen |-> 32,nj |-> 0,cvR |-> (0 :> {}),live |-> 1]),
    ([over |-> FALSE,cur |-> (0 :> 2),st |-> (0 :> "UPDATING"),cvU |-> (0 :> {}),pcw |-> (0 :> "su2"),born |-> 1,turn |-> 0,pcio |-> "wu0",out |-> <<[k |-> 0, cnt |-> 1, s |-> 0, q |-> 0], [k |-> 1, cnt |-> 1, s |-> 0, q |-> 1]>>,mtx |-> (0 :> 2),hist |-> (0 :> 4),buf |-> (0 :> [total |-> 2, now |-> 2, final |-> FALSE, data |-> <<[k |-> 2, cnt |-> 1, s |-> 0, q |-> 2], [k |-> 3, cnt |-> 1, s |-> 0, q |-> 3]>>]),lstate |-> "FULL",nload |-> 3,outlen |-> 32,nj |-> 0,cvR |-> (0 :> {}),live |-> 1]),
    ([over |-> FALSE,cur |-> (0 :> 2),st |-> (0 :> "UPDATING"),cvU |-> (0 :> {}),pcw |-> (0 :> "su2"),born |-> 1,turn |-> 0,pcio |-> "wu1",out |-> <<[k |-> 0, cnt |-> 1, s |-> 0, q |-> 0], [k |-> 1, cnt |-> 1, s |-> 0, q |-> 1]>>,mtx |-> (0 :> 1),hist |-> (0 :> 4),buf |-> (0 :> [total |-> 2, now |-> 2, final |-> FALSE, data |-> <<[k |-> 2, cnt |-> 1, s |-> 0, q |-> 2], [k |-> 3, cnt |-> 1, s |-> 0, q |-> 3]>>]),lstate |-> "FULL",nload |-> 3,outlen |-> 32,nj |-> 0,cvR |-> (0 :> {}),live |-> 1]),
    ([over |-> FALSE,cur |-> (0 :> 2),st |-> (0 :> "UPDATING"),cvU |-> (0 :> {}),pcw |-> (0 :> "su2"),born |-> 1,turn |-> 0,pcio |-> "wu2",out |-> <<[k |-> 0, cnt |-> 1, s |-> 0, q |-> 0], [k |-> 1, cnt |-> 1, s |-> 0, q |-> 1]>>,mtx |-> (0 :> 2),hist |-> (0 :> 4),buf |-> (0 :> [total |-> 2, now |-> 2, final |-> FALSE, data |-> <<[k |-> 2, cnt |-> 1, s |-> 0, q |-> 2], [k |-> 3, cnt |-> 1, s |-> 0, q |-> 3]>>]),lstate |-> "FULL",nload |-> 3,outlen |-> 32,nj |-> 0,cvR |-> (0 :> {}),live |-> 1]),
    ([over |-> FALSE,cur |-> (0 :> 2),st |-> (0 :> "UPDATING"),cvU |-> (0 :> {}),pcw |-> (0 :> "su2"),born |-> 1,turn |-> 0,pcio |-> "bu",out |-> <<[k |-> 0, cnt |-> 1, s |-> 0, q |-> 0], [k |-> 1, cnt |-> 1, s |-> 0, q |-> 1]>>,mtx |-> (0 :> 2),hist |-> (0 :> 4),buf |-> (0 :> [total |-> 2, now |-> 2, final |-> FALSE, data |-> <<[k |-> 2, cnt |-> 1, s |-> 0, q |-> 2], [k |-> 3, cnt |-> 1, s |-> 0, q |-> 3]>>]),lstate |-> "FULL",nload |-> 3,outlen |-> 32,nj |-> 0,cvR |-> (0 :> {}),live |-> 1]),
    ([over |-> FALSE,cur |-> (0 :> 2),st |-> (0 :> "UPDATING"),cvU |-> (0 :> {}),pcw |-> (0 :> "su2"),born |-> 1,turn |-> 0,pcio |-> "ex0",out |-> <<[k |-> 0, cnt |-> 1, s |-> 0, q |-> 0], [k |-> 1, cnt |-> 1, s |-> 0, q |-> 1]>>,mtx |-> (0 :> 2),hist |-> (0 :> 4),buf |-> (0 :> [total |-> 2, now |-> 2, final |-> FALSE, data |-> <<[k |-> 2, cnt |-> 1, s |-> 0, q |-> 2], [k |-> 3, cnt |-> 1, s |-> 0, q |-> 3]>>]),lstate |-> "NODATA",nload |-> 3,outlen |-> 32,nj |-> 0,cvR |-> (0 :> {}),live |-> 1]),
    ([over |-> FALSE,cur |-> (0 :> 2),st |-> (0 :> "UPDATING"),cvU |-> (0 :> {}),pcw |-> (0 :> "su2"),born |-> 1,turn |-> 0,pcio |-> "ex1",out |-> <<[k |-> 0, cnt |-> 1, s |-> 0, q |-> 0], [k |-> 1, cnt |-> 1, s |-> 0, q |-> 1], [k |-> 2, cnt |-> 1, s |-> 0, q |-> 2], [k |-> 3, cnt |-> 1, s |-> 0, q |-> 3]>>,mtx |-> (0 :> 2),hist |-> (0 :> 4),buf |-> (0 :> [total |-> 2, now |-> 2, final |-> FALSE, data |-> <<[k |-> 2, cnt |-> 1, s |-> 0, q |-> 2], [k |-> 3, cnt |-> 1, s |-> 0, q |-> 3]>>]),lstate |-> "NODATA",nload |-> 3,outlen |-> 64,nj |-> 0,cvR |-> (0 :> {}),live |-> 1]),
    ([over |-> FALSE,cur |-> (0 :> 2),st |-> (0 :> "UPDATING"),cvU |-> (0 :> {}),pcw |-> (0 :> "su2"),born |-> 1,turn |-> 0,pcio |-> "ld0",out |-> <<[k |-> 0, cnt |-> 1, s |-> 0, q |-> 0], [k |-> 1, cnt |-> 1, s |-> 0, q |-> 1], [k |-> 2, cnt |-> 1, s |-> 0, q |-> 2], [k |-> 3, cnt |-> 1, s |-> 0, q |-> 3]>>,mtx |-> (0 :> 2),hist |-> (0 :> 4),buf |-> (0 :> [total |-> 2, now |-> 2, final |-> FALSE, data |-> <<[k |-> 2, cnt |-> 1, s |-> 0, q |-> 2], [k |-> 3, cnt |-> 1, s |-> 0, q |-> 3]>>]),lstate |-> "NODATA",nload |-> 3,outlen |-> 64,nj |-> 0,cvR |-> (0 :> {}),live |-> 1]),
    ([over |-> FALSE,cur |-> (0 :> 2),st |-> (0 :> "UPDATING"),cvU |-> (0 :> {}),pcw |-> (0 :> "su2"),born |-> 1,turn |-> 0,pcio |-> "ld1",out |-> <<[k |-> 0, cnt |-> 1, s |-> 0, q |-> 0], [k |-> 1, cnt |-> 1, s |-> 0, q |-> 1], [k |-> 2, cnt |-> 1, s |-> 0, q |-> 2], [k |-> 3, cnt |-> 1, s |-> 0, q |-> 3]>>,mtx |-> (0 :> 2),hist |-> (0 :> 4),buf |-> (0 :> [total |-> 0, now |-> 0, final |-> TRUE, data |-> <<>>]),lstate |-> "FINAL",nload |-> 4,outlen |-> 64,nj |-> 0,cvR |-> (0 :> {}),live |-> 1]),
    ([over |-> TRUE,cur |-> (0 :> 2),st |-> (0 :> "UPDATING"),cvU |-> (0 :> {}),pcw |-> (0 :> "su2"),born |-> 1,turn |-> 0,pcio |-> "sr0",out |-> <<[k |-> 0, cnt |-> 1, s |-> 0, q |-> 0], [k |-> 1, cnt |-> 1, s |-> 0, q |-> 1], [k |-> 2, cnt |-> 1, s |-> 0, q |-> 2], [k |-> 3, cnt |-> 1, s |-> 0, q |-> 3]>>,mtx |-> (0 :> 2),hist |-> (0 :> 4),buf |-> (0 :> [total |-> 0, now |-> 0, final |-> TRUE, data |-> <<>>]),lstate |-> "FINAL",nload |-> 4,outlen |-> 64,nj |-> 0,cvR |-> (0 :> {}),live |-> 1]),
    ([over |-> TRUE,cur |-> (0 :> 2),st |-> (0 :> "UPDATING"),cvU |-> (0 :> {}),pcw |-> (0 :> "su2"),born |-> 1,turn |-> 0,pcio |-> "sr1",out |-> <<[k |-> 0, cnt |-> 1, s |-> 0, q |-> 0], [k |-> 1, cnt |-> 1, s |-> 0, q |-> 1], [k |-> 2, cnt |-> 1, s |-> 0, q |-> 2], [k |-> 3, cnt |-> 1, s |-> 0, q |-> 3]>>,mtx |-> (0 :> 1),hist |-> (0 :> 4),buf |-> (0 :> [total |-> 0, now |-> 0, final |-> TRUE, data |-> <<>>]),lstate |-> "FINAL",nload |-> 4,outlen |-> 64,nj |-> 0,cvR |-> (0 :> {}),live |-> 1]),
    ([over |-> TRUE,cur |-> (0 :> 2),st |-> (0 :> "READY"),cvU |-> (0 :> {}),pcw |-> (0 :> "su2"),born |-> 1,turn |-> 0,pcio |-> "sr2",out |-> <<[k |-> 0, cnt |-> 1, s |-> 0, q |-> 0], [k |-> 1, cnt |-> 1, s |-> 0, q |-> 1], [k |-> 2, cnt |-> 1, s |-> 0, q |-> 2], [k |-> 3, cnt |-> 1, s |-> 0, q |-> 3]>>,mtx |-> (0 :> 2),hist |-> (0 :> 4),buf |-> (0 :> [total |-> 0, now |-> 0, final |-> TRUE, data |-> <<>>]),lstate |-> "FINAL",nload |-> 4,outlen |-> 64,nj |-> 0,cvR |-> (0 :> {}),live |-> 1]),
    ([over |-> TRUE,cur |-> (0 :> 2),st |-> (0 :> "READY"),cvU |-> (0 :> {}),pcw |-> (0 :> "su2"),born |-> 1,turn |-> 0,pcio |-> "ti",out |-> <<[k |-> 0, cnt |-> 1, s |-> 0, q |-> 0], [k |-> 1, cnt |-> 1, s |-> 0, q |-> 1], [k |-> 2, cnt |-> 1, s |-> 0, q |-> 2], [k |-> 3, cnt |-> 1, s |-> 0, q |-> 3]>>,mtx |-> (0 :> 2),hist |-> (0 :> 4),buf |-> (0 :> [total |-> 0, now |-> 0, final |-> TRUE, data |-> <<>>]),lstate |-> "FINAL",nload |-> 4,outlen |-> 64,nj |-> 0,cvR |-> (0 :> {}),live |-> 1]),
    ([over |-> TRUE,cur |-> (0 :> 2),st |-> (0 :> "READY"),cvU |-> (0 :> {}),pcw |-> (0 :> "su2"),born |-> 1,turn |-> 0,pcio |-> "wu0",out |-> <<[k |-> 0, cnt |-> 1, s |-> 0, q |-> 0], [k |-> 1, cnt |-> 1, s |-> 0, q |-> 1], [k |-> 2, cnt |-> 1, s |-> 0, q |-> 2], [k |-> 3, cnt |-> 1, s |-> 0, q |-> 3]>>,mtx |-> (0 :> 2),hist |-> (0 :> 4),buf |-> (0 :> [total |-> 0, now |-> 0, final |-> TRUE, data |-> <<>>]),lstate |-> "FINAL",nload |-> 4,outlen |-> 64,nj |-> 0,cvR |-> (0 :> {}),live |-> 1]),
    ([over |-> TRUE,cur |-> (0 :> 2),st |-> (0 :> "READY"),cvU |-> (0 :> {}),pcw |-> (0 :> "su2"),born |-> 1,turn |-> 0,pcio |-> "wu1",out |-> <<[k |-> 0, cnt |-> 1, s |-> 0, q |-> 0], [k |-> 1, cnt |-> 1, s |-> 0, q |-> 1], [k |-> 2, cnt |-> 1, s |-> 0, q |-> 2], [k |-> 3, cnt |-> 1, s |-> 0, q |-> 3]>>,mtx |-> (0 :> 1),hist |-> (0 :> 4),buf |-> (0 :> [total |-> 0, now |-> 0, final |-> TRUE, data |-> <<>>]),lstate |-> "FINAL",nload |-> 4,outlen |-> 64,nj |-> 0,cvR |-> (0 :> {}),live |-> 1]),
    ([over |-> TRUE,cur |-> (0 :> 2),st |-> (0 :> "READY"),cvU |-> (0 :> {}),pcw |-> (0 :> "su2"),born |-> 1,turn |-> 0,pcio |-> "wup",out |-> <<[k |-> 0, cnt |-> 1, s |-> 0, q |-> 0], [k |-> 1, cnt |-> 1, s |-> 0, q |-> 1], [k |-> 2, cnt |-> 1, s |-> 0, q |-> 2], [k |-> 3, cnt |-> 1, s |-> 0, q |-> 3]>>,mtx |-> (0 :> 1),hist |-> (0 :> 4),buf |-> (0 :> [total |-> 0, now |-> 0, final |-> TRUE, data |-> <<>>]),lstate |-> "FINAL",nload |-> 4,outlen |-> 64,nj |-> 0,cvR |-> (0 :> {}),live |-> 1]),
    ([over |-> TRUE,cur |-> (0 :> 2),st |-> (0 :> "READY"),cvU |-> (0 :> {1}),pcw |-> (0 :> "su2"),born |-> 1,turn |-> 0,pcio |-> "wuw",out |-> <<[k |-> 0, cnt |-> 1, s |-> 0, q |-> 0], [k |-> 1, cnt |-> 1, s |-> 0, q |-> 1], [k |-> 2, cnt |-> 1, s |-> 0, q |-> 2], [k |-> 3, cnt |-> 1, s |-> 0, q |-> 3]>>,mtx |-> (0 :> 2),hist |-> (0 :> 4),buf |-> (0 :> [total |-> 0, now |-> 0, final |-> TRUE, data |-> <<>>]),lstate |-> "FINAL",nload |-> 4,outlen |-> 64,nj |-> 0,cvR |-> (0 :> {}),live |-> 1]),
    ([over |-> TRUE,cur |-> (0 :> 2),st |-> (0 :> "READY"),cvU |-> (0 :> {1}),pcw |-> (0 :> "wr0"),born |-> 1,turn |-> 0,pcio |-> "wuw",out |-> <<[k |-> 0, cnt |-> 1, s |-> 0, q |-> 0], [k |-> 1, cnt |-> 1, s |-> 0, q |-> 1], [k |-> 2, cnt |-> 1, s |-> 0, q |-> 2], [k |-> 3, cnt |-> 1, s |-> 0, q |-> 3]>>,mtx |-> (0 :> 2),hist |-> (0 :> 4),buf |-> (0 :> [total |-> 0, now |-> 0, final |-> TRUE, data |-> <<>>]),lstate |-> "FINAL",nload |-> 4,outlen |-> 64,nj |-> 0,cvR |-> (0 :> {}),live |-> 1]),
    ([over |-> TRUE,cur |-> (0 :> 2),st |-> (0 :> "READY"),cvU |-> (0 :> {1}),pcw |-> (0 :> "wr1"),born |-> 1,turn |-> 0,pcio |-> "wuw",out |-> <<[k |-> 0, cnt |-> 1, s |-> 0, q |-> 0], [k |-> 1, cnt |-> 1, s |-> 0, q |-> 1], [k |-> 2, cnt |-> 1, s |-> 0, q |-> 2], [k |-> 3, cnt |-> 1, s |-> 0, q |-> 3]>>,mtx |-> (0 :> 0),hist |-> (0 :> 4),buf |-> (0 :> [total |-> 0, now |-> 0, final |-> TRUE, data |-> <<>>]),lstate |-> "FINAL",nload |-> 4,outlen |-> 64,nj |-> 0,cvR |-> (0 :> {}),live |-> 1]),
    ([over |-> TRUE,cur |-> (0 :> 2),st |-> (0 :> "READY"),cvU |-> (0 :> {1}),pcw |-> (0 :> "wr2"),born |-> 1,turn |-> 0,pcio |-> "wuw",out |-> <<[k |-> 0, cnt |-> 1, s |-> 0, q |-> 0], [k |-> 1, cnt |-> 1, s |-> 0, q |-> 1], [k |-> 2, cnt |-> 1, s |-> 0, q |-> 2], [k |-> 3, cnt |-> 1, s |-> 0, q |-> 3]>>,mtx |-> (0 :> 2),hist |-> (0 :> 4),buf |-> (0 :> [total |-> 0, now |-> 0, final |-> TRUE, data |-> <<>>]),lstate |-> "FINAL",nload |-> 4,outlen |-> 64,nj |-> 0,cvR |-> (0 :> {}),live |-> 1]),
    ([over |-> TRUE,cur |-> (0 :> 2),st |-> (0 :> "READY"),cvU |-> (0 :> {1}),pcw |-> (0 :> "chk"),born |-> 1,turn |-> 0,pcio |-> "wuw",out |-> <<[k |-> 0, cnt |-> 1, s |-> 0, q |-> 0], [k |-> 1, cnt |-> 1, s |-> 0, q |-> 1], [k |-> 2, cnt |-> 1, s |-> 0, q |-> 2], [k |-> 3, cnt |-> 1, s |-> 0, q |-> 3]>>,mtx |-> (0 :> 2),hist |-> (0 :> 4),buf |-> (0 :> [total |-> 0, now |-> 0, final |-> TRUE, data |-> <<>>]),lstate |-> "FINAL",nload |-> 4,outlen |-> 64,nj |-> 0,cvR |-> (0 :> {}),live |-> 1]),
    ([over |-> TRUE,cur |-> (0 :> 2),st |-> (0 :> "READY"),cvU |-> (0 :> {1}),pcw |-> (0 :> "done"),born |-> 1,turn |-> 0,pcio |-> "wuw",out |-> <<[k |-> 0, cnt |-> 1, s |-> 0, q |-> 0], [k |-> 1, cnt |-> 1, s |-> 0, q |-> 1], [k |-> 2, cnt |-> 1, s |-> 0, q |-> 2], [k |-> 3, cnt |-> 1, s |-> 0, q |-> 3]>>,mtx |-> (0 :> 2),hist |-> (0 :> 4),buf |-> (0 :> [total |-> 0, now |-> 0, final |-> TRUE, data |-> <<>>]),lstate |-> "FINAL",nload |-> 4,outlen |-> 64,nj |-> 0,cvR |-> (0 :> {}),live |-> 1])
    >>
----


=============================================================================

---- CONFIG MC_Pipeline_TTrace_1790452756 ----
CONSTANTS
    T = 1
    N = 64
    S = 32
    Dir = "dec"
    EofPeek = FALSE
    Pad = 5
    Gate = TRUE
    NotifyReady = TRUE
    NotifyUpdate = TRUE
    WaitLoop = TRUE
    ReadyTest = TRUE
    Spurious = FALSE
    Unbounded = FALSE
    Loads <- MCLoads
    DecPad <- MCDecPad

INVARIANT
    _inv

CHECK_DEADLOCK
    \* CHECK_DEADLOCK off because of PROPERTY or INVARIANT above.
    FALSE

INIT
    _init

NEXT
    _next

CONSTANT
    _TETrace <- _trace

ALIAS
    _expression
=============================================================================
\* Generated on Sat Sep 26 19:59:21 UTC 2026