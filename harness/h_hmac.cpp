// C08 driver: records tags computed / compared / patched by the real hmac class.
#include "wv_json.h"
#include "cry.h"

int main(int argc, char **argv)
{
  int maxlen = argc > 1 ? atoi(argv[1]) : 140;
  int step = argc > 2 ? atoi(argv[2]) : 1;
  Rng rng(wv_seed() * 7919 + 8);
  long id = 0;
  for (int alg = 0; alg < 3; ++alg)
    for (int n = 0; n <= maxlen; n += step)
    {
      int kcls = (n + alg) % 4; // 0 random, 1 zero, 2 all-ff, 3 random
      std::vector<u8_t> key = kcls == 1 ? std::vector<u8_t>(16, 0) : kcls == 2 ? std::vector<u8_t>(16, 0xff) : rng.bytes(16);
      int pos = (n % 3 == 0) ? 0 : (n % 3 == 1) ? 5 : 48;
      std::vector<u8_t> file = rng.bytes(pos);
      auto m = wv_content(rng, n, n % 2);
      file.insert(file.end(), m.begin(), m.end());
      // gethmac from the current position to EOF
      {
        FILE *f = wv_memfile(file);
        fseek(f, pos, SEEK_SET);
        hmac h;
        u8_t out[64];
        memset(out, 0xAA, sizeof out);
        h.gethmac(alg, key.data(), f, out);
        int hl = h.get_length();
        Ev("gethmac").i("id", id++).i("alg", alg).b("key", key).i("pos", pos).b("file", file).i("hlen", hl).b("out", out, 64).emit();
        fclose(f);
        // cmphmac: correct tag, each tag byte altered in turn, a change beyond the tag only
        for (int v = -1; v <= hl; ++v)
        {
          if (v >= 0 && v < hl && (n % 8) != 0 && v != 0 && v != hl - 1)
            continue; // every byte position for every 8th message, first/last byte otherwise
          u8_t given[64];
          memcpy(given, out, 64);
          for (int j = hl; j < 64; ++j)
            given[j] = 0;
          if (v >= 0)
            given[v] ^= (u8_t)(1 << (v % 8));
          FILE *g = wv_memfile(file);
          fseek(g, pos, SEEK_SET);
          hmac h2;
          bool r = h2.cmphmac(alg, key.data(), g, given);
          fclose(g);
          Ev("cmphmac").i("id", id++).i("alg", alg).b("key", key).i("pos", pos).b("file", file).b("given", given, 64).i("res", r ? 1 : 0).emit();
        }
      }
      // aggregate-preserving alterations of the tag: two bytes swapped (same sum, xor and multiset),
      // +d / -d on two bytes (same sum), the same mask xor-ed into two bytes (same xor-fold)
      if (n % 4 == 1)
      {
        hmac h0;
        u8_t t0[64];
        FILE *f0 = wv_memfile(file);
        fseek(f0, pos, SEEK_SET);
        h0.gethmac(alg, key.data(), f0, t0);
        fclose(f0);
        int hl = h0.get_length();
        for (int variant = 0; variant < 3; ++variant)
        {
          u8_t given[64];
          memset(given, 0, 64);
          memcpy(given, t0, hl);
          int i = (n + variant) % hl, j = (i + 1 + (n % (hl - 1))) % hl;
          if (variant == 0)
          {
            if (given[i] == given[j])
              continue;
            std::swap(given[i], given[j]);
          }
          else if (variant == 1)
          {
            given[i] = (u8_t)(given[i] + 1);
            given[j] = (u8_t)(given[j] - 1);
          }
          else
          {
            given[i] ^= 0x24;
            given[j] ^= 0x24;
          }
          FILE *g = wv_memfile(file);
          fseek(g, pos, SEEK_SET);
          hmac h2;
          bool r = h2.cmphmac(alg, key.data(), g, given);
          fclose(g);
          Ev("cmphmac").i("id", id++).i("alg", alg).b("key", key).i("pos", pos).b("file", file).b("given", given, 64).i("res", r ? 1 : 0).emit();
        }
      }
      // writeFileHmac: hash from hashMark to EOF, patch at writeMark
      if (n % 4 == 0)
      {
        std::vector<u8_t> f2 = rng.bytes(48);
        f2.insert(f2.end(), m.begin(), m.end());
        FILE *f = wv_memfile(f2);
        hmac h;
        h.writeFileHmac(alg, f, key.data(), 48, 10);
        auto after = wv_slurp(f);
        fclose(f);
        Ev("writehmac").i("id", id++).i("alg", alg).b("key", key).i("hashMark", 48).i("writeMark", 10).b("before", f2).b("after", after).emit();
      }
    }
  // ONE long-lived hmac object used for everything: a random walk over (hash mode, key) with few keys, so that every
  // pattern "mode X key A, mode Y key B, mode X key B" occurs - state cached in the object or the process must not leak
  {
    std::vector<std::vector<u8_t>> keys = {rng.bytes(16), rng.bytes(16), std::vector<u8_t>(16, 0)};
    keys[1][0] = keys[0][0];      // shared first byte
    hmac shared;
    for (int step = 0; step < 90; ++step)
    {
      int alg = (int)rng.next(3);
      auto &key = keys[rng.next(3)];
      std::vector<u8_t> file = rng.bytes(48);
      auto m = wv_content(rng, 10 + step % 70, 1);
      file.insert(file.end(), m.begin(), m.end());
      FILE *f = wv_memfile(file);
      fseek(f, 48, SEEK_SET);
      u8_t out[64];
      memset(out, 0xAA, sizeof out);
      shared.gethmac(alg, key.data(), f, out);
      int hl = shared.get_length();
      Ev("gethmac").i("id", id++).i("alg", alg).b("key", key).i("pos", 48).b("file", file).i("hlen", hl).b("out", out, 64).emit();
      // and the comparison through the same object: the right tag (computed by a FRESH object) must be accepted,
      // the tag of another key must not
      for (int which = 0; which < 2; ++which)
      {
        auto &k2 = which == 0 ? key : keys[(&key - &keys[0] + 1) % 3];
        u8_t given[64];
        memset(given, 0, sizeof given);
        FILE *g0 = wv_memfile(file);
        fseek(g0, 48, SEEK_SET);
        hmac fresh;
        fresh.gethmac(alg, k2.data(), g0, given);
        fclose(g0);
        fseek(f, 48, SEEK_SET);
        bool r = shared.cmphmac(alg, key.data(), f, given);
        Ev("cmphmac").i("id", id++).i("alg", alg).b("key", key).i("pos", 48).b("file", file).b("given", given, 64).i("res", r ? 1 : 0).emit();
      }
      fclose(f);
    }
  }
  // start positions beyond one byte / two bytes of offset: "[pos, EOF)" for every pos, not only header-sized ones
  for (int alg = 0; alg < 3; ++alg)
    for (long pos : {255L, 256L, 257L, 300L, 1000L, 4103L, 65539L})
    {
      if (pos > 60000 && maxlen < 100)
        continue;
      auto key = rng.bytes(16);
      std::vector<u8_t> file = rng.bytes(pos);
      auto m = wv_content(rng, 30 + alg, 1);
      file.insert(file.end(), m.begin(), m.end());
      FILE *f = wv_memfile(file);
      fseek(f, pos, SEEK_SET);
      hmac h;
      u8_t out[64];
      memset(out, 0xAA, sizeof out);
      h.gethmac(alg, key.data(), f, out);
      int hl = h.get_length();
      Ev("gethmac").i("id", id++).i("alg", alg).b("key", key).i("pos", pos).b("file", file).i("hlen", hl).b("out", out, 64).emit();
      fclose(f);
      // the tag of the message that starts at pos % 256 (or pos % 65536) must NOT be accepted
      for (long wrong : {pos % 256, pos % 65536})
      {
        if (wrong == pos)
          continue;
        u8_t other[64];
        memset(other, 0, sizeof other);
        FILE *g = wv_memfile(file);
        fseek(g, wrong, SEEK_SET);
        hmac h1;
        h1.gethmac(alg, key.data(), g, other);
        fclose(g);
        FILE *g2 = wv_memfile(file);
        fseek(g2, pos, SEEK_SET);
        hmac h2;
        bool r = h2.cmphmac(alg, key.data(), g2, other);
        fclose(g2);
        Ev("cmphmac").i("id", id++).i("alg", alg).b("key", key).i("pos", pos).b("file", file).b("given", other, 64).i("res", r ? 1 : 0).emit();
      }
    }
  return 0;
}
