CONSTANTS MaxLen = 4  DelOnAllPaths = FALSE  LiveDecOnInv = TRUE  FullGetoptReset = TRUE
SPECIFICATION Spec
INVARIANTS Quiescent HistoryFree
CHECK_DEADLOCK FALSE
