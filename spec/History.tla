------------------------------- MODULE History -------------------------------
(***************************************************************************)
(* C15, design level: the process-wide state wencry keeps between          *)
(* operations - the buffer-group singleton, the live-buffer counter, and   *)
(* the option parser's position (optind AND glibc's hidden position inside *)
(* a clustered short option) - and an alphabet of operations with their    *)
(* effect on it.  TLC explores every history up to MaxLen and checks       *)
(*   Quiescent   : between operations the singleton is gone, counter 0     *)
(*   HistoryFree : the result of an operation equals its result on a       *)
(*                 pristine process                                        *)
(* and emits the histories as test vectors for the real code.              *)
(* Switches (TRUE = the tree as repaired): DelOnAllPaths, LiveDecOnInv,    *)
(* FullGetoptReset (FALSE = D9: only optind is reset).                     *)
(***************************************************************************)
EXTENDS Naturals, Sequences, TLC
CONSTANTS MaxLen, DelOnAllPaths, LiveDecOnInv, FullGetoptReset
Ops == 0..36
IsEnc(o) == o \in {0, 1, 2, 28, 36}
IsDecOK(o) == o \in {3, 14, 15, 16, 29}
IsDecFail(o) == o \in {4, 5, 6, 7, 17, 18, 24, 25, 32}
IsVer(o) == o \in {8, 9, 19, 20, 21, 22, 23, 26, 27, 30, 31, 33}
IsParse(o) == o \in {10, 11, 12, 13, 34, 35}
Threads(o) == CASE o = 0 -> 1 [] o = 1 -> 2 [] o = 2 -> 4 [] o = 3 -> 1 [] o \in {16, 28, 29} -> 4 [] OTHER -> 2

VARIABLES inst, live, cluster, hist, lastOK
vars == <<inst, live, cluster, hist, lastOK>>
\* result of an operation given the process state before it: "ok" / "fail" as on a pristine
\* process, or "wrong" when residue changes the outcome
PipelineRun(o) ==   \* an operation that runs the buffer pipeline: needs a clean singleton and counter
  IF inst = "none" /\ live = 0 THEN "same" ELSE "wrong"
ParseRun(o) == IF cluster = 0 THEN "same" ELSE "wrong"   \* a stale in-cluster position mis-parses the next vector

Do(o) ==
  /\ Len(hist) < MaxLen
  /\ hist' = Append(hist, o)
  /\ IF IsEnc(o) \/ IsDecOK(o)
     THEN /\ lastOK' = (PipelineRun(o) = "same")
          /\ inst' = IF DelOnAllPaths \/ IsEnc(o) THEN "none" ELSE "leaked"
          /\ live' = IF LiveDecOnInv THEN 0 ELSE live + Threads(o)
          /\ cluster' = cluster
     ELSE IF IsDecFail(o) \/ IsVer(o)
     THEN /\ lastOK' = TRUE /\ UNCHANGED <<inst, live, cluster>>      \* never reaches the pipeline
     ELSE /\ lastOK' = (ParseRun(o) = "same")
          /\ cluster' = IF o = 12 THEN (IF FullGetoptReset THEN 0 ELSE 2) ELSE 0
          /\ UNCHANGED <<inst, live>>
Init == inst = "none" /\ live = 0 /\ cluster = 0 /\ hist = <<>> /\ lastOK = TRUE
Next == \E o \in Ops : Do(o)
Spec == Init /\ [][Next]_vars
Quiescent == inst = "none" /\ live = 0
HistoryFree == lastOK
=============================================================================
