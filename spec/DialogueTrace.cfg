CONSTANT MaxRetry = 1
SPECIFICATION TSpec
INVARIANT Finished
CHECK_DEADLOCK FALSE
