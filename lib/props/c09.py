"""C09 - single-block AES-128 equals FIPS-197; decryption inverts it."""
import json
import wv
PID = "C09"


def run(tier, replay):
    res = wv.Result(PID, "exploration", tier)
    exe = wv.build("h_aes", ["aes"], ["h_aes.cpp"])
    if replay:
        events = json.load(open(replay))["replay"]["events"]
    else:
        events = wv.record(res, PID, [(exe, [200, 0] if tier == "quick" else [20000, 1])])
    bad, st = wv.validate_trace("AesTrace", events, name=PID + "/tlc", shards=8)
    keys = set((e["e"], tuple(e.get("key", [])), tuple(e.get("in", []))) for e in events)
    res.cov.update({"evaluations": len(events), "distinct_nontrivial": len(keys),
                    "rule": "event 'tables': s_box, rs_box, Logtable, Alogtable (reachable indices), RC and all 7x256 Gmul products checked EXHAUSTIVELY by TLC against GF(2^8) algebra (inverse+affine S-box, powers of {03}); events enc/dec: (key, block) pairs - FIPS-197 C.1 and B, single-bit keys and blocks, every byte value at every position, seeded random pairs, decryption of independent random blocks - each recomputed by TLC with spec/AES128.tla (built from first principles, shares no table with the code). Distinct = distinct (direction, key, block).",
                    "tables_exhaustive": True, "traces_validated_against_impl": len(events), "validator_states": st["states"], "exhaustive": False})
    for e in events[1:: max(1, len(events) // 4)][:4]:
        res.sample(wv.shorten(e))
    for e, why in bad:
        res.violation("%s: %s" % (e["e"], why[:300]), {"events": [wv.shorten(e, 600)]})
    res.assumptions += ["(key, block) pairs are sampled: a for-all over 2^256 inputs is not enumerated; the tables, which are the only data-dependent paths, are checked exhaustively",
                        "TLC and the FIPS-197 transcription (anchored by appendix C.1/B vectors and algebraic ASSUMEs)"]
    return res.finish()
