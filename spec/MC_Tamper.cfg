CONSTANTS Ts = {1, 2}  NBs = {1, 3}  Depth = 1  ExemptD3 = TRUE
SPECIFICATION Spec
INVARIANTS TamperSafe OnlyPadding WrongKey
CHECK_DEADLOCK FALSE
