#!/usr/bin/env python3
"""Build /repo with the WENCRY_VERIF guard OFF in a scratch directory and run the
36 stable baseline tests (names from /root/.vp/BASELINE.json when present, else the
copy kept in lib/baseline_stable.json).  Exit 0 iff all of them pass."""
import json, os, re, shutil, subprocess, sys, tempfile, xml.etree.ElementTree as ET

REPO = os.environ.get("WV_REPO", "/repo")
HERE = os.path.dirname(os.path.abspath(__file__))


def stable_names():
    for p in ("/root/.vp/BASELINE.json", os.path.join(HERE, "baseline_stable.json")):
        if os.path.exists(p):
            return json.load(open(p))["stable_pass"]
    raise SystemExit("no baseline list")


def main():
    names = stable_names()
    d = tempfile.mkdtemp(prefix="wv-base.", dir="/var/tmp")
    try:
        gt = "/root/miniconda/lib/cmake/GTest"
        cfg = ["cmake", "-G", "Ninja", "-S", REPO, "-B", d, "-DCMAKE_BUILD_TYPE=RelWithDebInfo",
               "-DCMAKE_CXX_FLAGS=-Wno-error"]
        if os.path.isdir(gt):
            cfg.append("-DGTest_DIR=" + gt)
        r = subprocess.run(cfg, stdout=subprocess.PIPE, stderr=subprocess.STDOUT, text=True)
        if r.returncode:
            print(r.stdout[-3000:]); print("ERROR configure failed"); return 2
        r = subprocess.run(["cmake", "--build", d, "-j", "16"], stdout=subprocess.PIPE,
                           stderr=subprocess.STDOUT, text=True)
        if r.returncode:
            print(r.stdout[-3000:]); print("ERROR build failed"); return 2
        suites = sorted({n.split("::")[0] for n in names})
        results = {}
        for s in suites:
            exe = os.path.join(d, "test", s)
            xml = os.path.join(d, s + ".xml")
            try:
                r = subprocess.run([exe, "--gtest_output=xml:" + xml], cwd=os.path.join(d, "test"),
                                   stdout=subprocess.DEVNULL, stderr=subprocess.DEVNULL, timeout=900)
                rc = r.returncode
            except subprocess.TimeoutExpired:
                rc = -1
            results[s + "::" + s] = (rc == 0)
            if os.path.exists(xml):
                for tc in ET.parse(xml).getroot().iter("testcase"):
                    ok = tc.find("failure") is None and tc.find("error") is None
                    results[tc.get("classname") + "::" + tc.get("name")] = ok
        bad = [n for n in names if not results.get(n, False)]
        print("baseline-off: %d/%d stable tests pass" % (len(names) - len(bad), len(names)))
        for n in bad:
            print("FAILED", n)
        return 1 if bad else 0
    finally:
        shutil.rmtree(d, ignore_errors=True)


if __name__ == "__main__":
    sys.exit(main())
