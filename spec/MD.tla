--------------------------------- MODULE MD ---------------------------------
(***************************************************************************)
(* Merkle-Damgaard framing shared by SHA-1, MD5 and SHA-256 (FIPS 180-4    *)
(* section 5.1.1, RFC 1321 section 3.1-3.2): append 0x80, zero fill to 56  *)
(* mod 64, append the 64-bit bit length (big-endian for SHA, little-endian *)
(* for MD5).  The length is carried as four 16-bit limbs so that messages  *)
(* beyond 2^28 bytes can be described although TLC integers are 32 bits.   *)
(***************************************************************************)
EXTENDS Bytes

\* number of zero bytes after the 0x80 marker for a message of n bytes
ZeroFill(n) == (119 - (n % 64)) % 64

LenField(nl, be) == IF be THEN LimbsBE(Limbs8(nl)) ELSE LimbsLE(Limbs8(nl))

\* The padded tail: what follows the last whole 64-byte unit of the message.
\* tail = the last (n mod 64) bytes of the message, nl = total length in limbs.
\* Result has 64 bytes when Len(tail) < 56 and 128 bytes otherwise.
PadTail(tail, nl, be) ==
  tail \o <<128>> \o Zeros(ZeroFill(Len(tail))) \o LenField(nl, be)

Pad(m, be) == m \o <<128>> \o Zeros(ZeroFill(Len(m))) \o LenField(NatLimbs(Len(m)), be)

\* number of compression calls for an n-byte message
NBlocks(n) == (n \div 64) + (IF n % 64 >= 56 THEN 2 ELSE 1)

\* iterate a compression function over the 64-byte blocks of a padded message
Iterate(Compress(_, _), iv, padded) ==
  FoldLeft(Compress, iv, Pieces(padded, 64))
=============================================================================
