"""Shared machinery of C03 / C04 / C14: exhaustive exploration of the real pipeline code under the
deterministic scheduler, the code graph turned into a TLA+ behaviour spec (CodeGraph.tla) and
checked by TLC, plus the design-level model checking of Pipeline.tla."""
import concurrent.futures as cf, json, os, re, shutil, subprocess, time
import wv

GROUPS = {
    "C03": ("InitOK OutPrefix OutExact", False, False),
    "C14": ("InitOK Exclusive NoUnderflow InOrder", False, False),
    "C04": ("InitOK Quiescent", True, True),      # + deadlock + <>Done under fairness
}
# (T, dir, n, spurious, blocks-per-chunk)
QUICK = [(1, "dec", 32, 0, 2, 16), (2, "dec", 48, 0, 2, 1), (1, "dec", 16, 0, 2, 16), (1, "enc", 0, 0, 2), (1, "enc", 24, 0, 2), (1, "enc", 40, 1, 2), (1, "dec", 32, 0, 2), (1, "dec", 48, 1, 2),
         (2, "enc", 24, 0, 2), (2, "enc", 64, 0, 2), (2, "enc", 70, 0, 2), (2, "enc", 40, 1, 2), (2, "dec", 64, 0, 2), (2, "dec", 80, 0, 2),
         ]
THOROUGH = QUICK + [(3, "enc", 40, 0, 2), (2, "enc", 70, 1, 2), (2, "dec", 96, 1, 2), (2, "enc", 134, 0, 2), (3, "enc", 70, 0, 2), (3, "dec", 96, 0, 2),
                    (3, "enc", 104, 0, 2), (3, "enc", 40, 1, 2), (2, "enc", 40, 0, 1), (3, "enc", 56, 0, 1), (2, "dec", 64, 1, 1)]
PCT_QUICK = [(3, "enc", 104, 300), (4, "enc", 200, 150), (8, "enc", 300, 60), (16, "dec", 560, 30)]
PCT_THOROUGH = [(4, "enc", 200, 3000), (4, "dec", 256, 3000), (8, "enc", 300, 1500), (16, "enc", 600, 600), (16, "dec", 560, 600)]


HOOK_TAGS = ["ld0", "ld1", "ex0", "ex1", "wr", "wu", "sr", "su", "ti", "ge", "chk", "bu"]


def hooks_present():
    """The scheduling points are part of the trusted base: every WV_POINT tag must still be in the source
    (which points a given configuration reaches is the code's business and is not demanded)."""
    src = open(os.path.join(wv.REPO, "kernel/multi_aes/multi_buffergroup.cpp")).read()
    missing = [t for t in HOOK_TAGS if ('WV_POINT("%s"' % t) not in src]
    if missing:
        raise wv.Infra("instrumentation incomplete: the WV_POINT hook(s) %s are no longer in kernel/multi_aes/multi_buffergroup.cpp; "
                       "without them the exploration is too coarse to be trusted" % missing)


def sched_exe(blocks):
    return wv.build("h_sched", ["aes", "pipe"], ["h_sched.cpp"], ["-DWENCRY_VERIF_BUF_SZ=%d" % blocks],
                    sanitize=False, force_include="wv_sync.h")


def padof(c):
    return c[5] if len(c) > 5 else 5


def cfgname(c):
    return "T%d_%s_n%d_sp%d_b%d" % tuple(c[:5]) + ("" if padof(c) == 5 else "_pad%d" % padof(c))


def explore(c):
    """Returns (nodes path, summary dict). Cached next to the executable (key = content of /repo)."""
    T, d, n, sp, blocks = c[:5]
    exe = sched_exe(blocks)
    gdir = os.path.join(os.path.dirname(exe), "graphs"); os.makedirs(gdir, exist_ok=True)
    pre = os.path.join(gdir, cfgname(c))
    summ = pre + ".summary.json"
    with wv.locked(pre):
        return _explore_locked(c, exe, pre, summ)


def _explore_locked(c, exe, pre, summ):
    T, d, n, sp, blocks = c[:5]
    if not (os.path.exists(summ) and os.path.exists(pre + ".nodes.ndjson")):
        r = wv.run_harness(exe, ["explore", T, d, n, sp, pre, 400000], timeout=3000, env={"WV_DEC_PAD": str(padof(c))})
        out = r.stdout.decode(errors="replace").strip().splitlines()
        last = json.loads(out[-1]) if out and out[-1].startswith("{") else {}
        if r.returncode in (7, 8) or last.get("e") in ("stuck", "crash"):
            last = {"e": "stuck", "why": last.get("e", "stuck"), "signal": last.get("signal"), "schedule": last.get("schedule", ""), "T": T, "dir": d, "n": n, "spurious": sp}
        elif r.returncode != 0 or last.get("e") != "explored":
            raise wv.Infra("explorer failed on %s: rc=%s\n%s\n%s" % (cfgname(c), r.returncode, r.stdout[-1500:], r.stderr[-1500:]))
        else:
            tags = set()
            for ln in out:
                if ln.startswith('{"e":"tags"'):
                    tags = set(json.loads(ln)["seen"].split())
            last["tags"] = sorted(tags)
        json.dump(last, open(summ, "w"))
    return pre + ".nodes.ndjson", json.load(open(summ))


def pct(c, blocks=2):
    T, d, n, runs = c
    exe = sched_exe(blocks)
    gdir = os.path.join(os.path.dirname(exe), "graphs"); os.makedirs(gdir, exist_ok=True)
    pre = os.path.join(gdir, "pct_T%d_%s_n%d_r%d_seed%d" % (T, d, n, runs, wv.seed()))
    summ = pre + ".summary.json"
    with wv.locked(pre):
        return _pct_locked(c, exe, pre, summ)


def _pct_locked(c, exe, pre, summ):
    T, d, n, runs = c
    if not os.path.exists(summ):
        r = wv.run_harness(exe, ["pct", T, d, n, runs, pre], timeout=600)
        out = r.stdout.decode(errors="replace").strip().splitlines()
        last = json.loads(out[-1]) if out and out[-1].startswith("{") else {}
        if r.returncode in (7, 8) or last.get("e") in ("stuck", "crash"):
            last = {"e": "stuck", "why": last.get("e", "stuck"), "signal": last.get("signal"), "schedule": last.get("schedule", ""), "T": T, "dir": d, "n": n, "spurious": 0}
        elif r.returncode != 0 or last.get("e") != "sampled":
            raise wv.Infra("pct sampler failed: rc=%s\n%s\n%s" % (r.returncode, r.stdout[-1500:], r.stderr[-1500:]))
        json.dump(last, open(summ, "w"))
    return pre + ".nodes.ndjson", json.load(open(summ))


def write_cfg(name, T, n, S, d, sp, spec, invariants, props, fair, pad=5):
    fmt = ("CONSTANTS T = %d  N = %d  S = %d  Dir = \"%s\"  EofPeek = TRUE  Pad = %d\n"
           "  Gate = TRUE  NotifyReady = TRUE  NotifyUpdate = TRUE  WaitLoop = TRUE  ReadyTest = TRUE  Spurious = %s  Unbounded = FALSE\n"
           "  Loads <- MCLoads  DecPad <- MCDecPad\nSPECIFICATION %s\n")
    txt = fmt % (T, n, S, d, pad, "TRUE" if sp else "FALSE", spec)
    if invariants:
        txt += "INVARIANTS " + invariants + "\n"
    for p in props:
        txt += "PROPERTY " + p + "\n"
    d_ = os.path.join(wv.RUN, "pipecfg"); os.makedirs(d_, exist_ok=True)
    # TLC wants the cfg next to the module: keep generated cfgs in spec/gen (ignored by git)
    g = os.path.join(wv.SPEC, "gen"); os.makedirs(g, exist_ok=True)
    name = "%s_p%d" % (name, os.getpid())
    with open(os.path.join(g, name + ".cfg"), "w") as f:
        f.write(txt)
    return os.path.join("gen", name)


def heap_for(path):
    mb = os.path.getsize(path) / 1e6
    return "800m" if mb < 3 else "2g" if mb < 15 else "6g"


def trace_nodes(out):
    return [int(x) for x in re.findall(r"/\\ node = (\d+)", out)]


def schedule_of(nodes_path, path):
    """thread ids along a node path (from the successor lists)."""
    need = set(path)
    recs = {}
    with open(nodes_path) as f:
        for ln in f:
            m = re.match(r'\{"id":(\d+),', ln)
            if m and int(m.group(1)) in need:
                recs[int(m.group(1))] = json.loads(ln)
    sched = []
    for a, b in zip(path, path[1:]):
        th = [s[0] for s in recs[a]["succ"] if s[1] == b]
        sched.append(th[0] if th else -1)
    return sched, recs.get(path[-1], {}).get("s") if path else None


def check_graph(pid, c, nodes_path, sampled=False):
    """TLC on the code graph for property group pid. Returns dict(kind, ...)."""
    T, d, n, sp, blocks = c[:5]
    inv, deadlock, live = GROUPS[pid]
    if sampled:
        live = False      # a sampled subgraph has no meaningful fairness; sinks must still be Done
    name = "CG_%s_%s%s" % (pid, cfgname(c), "_pct" if sampled else "")
    cfg = write_cfg(name, T, n, 16 * blocks, d, sp, "GFairSpec" if live else "GSpec", inv, ["GTermination"] if live else [], live, pad=padof(c))
    if not deadlock:
        with open(os.path.join(wv.SPEC, cfg + ".cfg"), "a") as f:
            f.write("CHECK_DEADLOCK FALSE\n")
    o = wv.tlc("CodeGraph", cfg=cfg, env={"NODES": nodes_path}, workers=1, timeout=2400, xmx=heap_for(nodes_path), c1=False)
    wv.tlc_must_run(o, name)
    res = {"cfg": cfgname(c), "states": o["distinct"], "transitions": o["states"], "ok": o["ok"], "out": o["out"]}
    if not o["ok"]:
        m = re.search(r"Invariant (\w+) is violated", o["out"])
        res["what"] = ("invariant " + m.group(1)) if m else ("deadlock: a reachable state of the code has no successor and is not Done" if "Deadlock reached" in o["out"]
                                                              else "temporal property <>Done violated under strong fairness (a fair cycle that never terminates)")
        path = trace_nodes(o["out"])
        # a liveness counterexample lists the prefix then the cycle; keep the walk as printed
        sched, last = schedule_of(nodes_path, path) if path else ([], None)
        res["schedule"], res["last_state"] = sched, last
    return res


def drift_check(c, nodes_path):
    T, d, n, sp, blocks = c[:5]
    name = "CG_step_%s" % cfgname(c)
    cfg = write_cfg(name, T, n, 16 * blocks, d, sp, "GSpec", "TypeOK LockDiscipline", ["StepOK"], False, pad=padof(c))
    with open(os.path.join(wv.SPEC, cfg + ".cfg"), "a") as f:
        f.write("CHECK_DEADLOCK FALSE\n")
    o = wv.tlc("CodeGraph", cfg=cfg, env={"NODES": nodes_path}, workers=1, timeout=2400, xmx=heap_for(nodes_path), c1=False)
    wv.tlc_must_run(o, name)
    return o


def proj_check(c, nodes_path, tag=""):
    """The projection of the code graph onto single buffers must be a behaviour of OneBuffer.tla."""
    T, d, n, sp, blocks = c[:5]
    name = "CG_proj_%s%s" % (cfgname(c), tag)
    props = ["Refines0", "RefinesLast"] + (["Refines1"] if T >= 3 else []) + (["Refines2", "Refines3"] if T >= 5 else [])
    cfg = write_cfg(name, T, n, 16 * blocks, d, sp, "GSpec", "TypeOK", props, False, pad=padof(c))
    with open(os.path.join(wv.SPEC, cfg + ".cfg"), "a") as f:
        f.write("CHECK_DEADLOCK FALSE\n")
    o = wv.tlc("CodeGraph", cfg=cfg, env={"NODES": nodes_path}, workers=1, timeout=2400, xmx=heap_for(nodes_path), c1=False)
    wv.tlc_must_run(o, name)
    return o


RT_QUICK = [(1, "enc", 40, 20), (2, "enc", 70, 16), (2, "dec", 64, 16), (3, "enc", 104, 8), (3, "dec", 96, 8), (4, "enc", 200, 3)]
RT_THOROUGH = [(1, "enc", 40, 200), (1, "dec", 48, 200), (2, "enc", 70, 150), (2, "enc", 64, 150), (2, "dec", 64, 150), (2, "dec", 96, 100), (3, "enc", 104, 60), (3, "dec", 96, 60), (4, "enc", 200, 20), (4, "dec", 160, 20)]


def rt_exe():
    return wv.build("h_rt", ["aes", "pipe"], ["h_rt.cpp"], ["-DWENCRY_VERIF_BUF_SZ=2"], sanitize=False)


def realthread_one(pid, c, attempt=0):
    """Record executions with the production primitives under OS schedules (random yields) and let TLC
    decide whether Pipeline.tla explains them (PipelineTrace.tla).  Returns dict."""
    T, d, n, x = c
    exe = rt_exe()
    pdir = os.path.join(wv.RUN, pid, "rt"); os.makedirs(pdir, exist_ok=True)
    path = os.path.join(pdir, "T%d_%s_n%d_a%d.ndjson" % (T, d, n, attempt))
    try:
        r = wv.run_harness(exe, [T, d, n, x, 300], path, timeout=45, env={"VERIF_SEED": str(wv.seed() + 1000 * attempt)})
    except wv.Infra:
        return {"cfg": c, "kind": "hang", "path": path}
    evs = wv.read_ndjson(path)
    if r.returncode != 0 or not evs or evs[-1].get("e") != "end":
        return {"cfg": c, "kind": "crash", "rc": r.returncode, "path": path, "stderr": r.stderr.decode(errors="replace")[-400:]}
    if pid == "C04":
        return {"cfg": c, "kind": "ok", "events": len(evs), "executions": x, "states": 0}
    inv = "NotAccepted " + ("TracePropsC14" if pid == "C14" else "TracePropsC03")
    cfg = write_cfg("PT_%s_T%d_%s_n%d" % (pid, T, d, n), T, n, 32, d, True, "TSpec", inv, [], False)
    with open(os.path.join(wv.SPEC, cfg + ".cfg"), "a") as f:
        f.write("CHECK_DEADLOCK FALSE\nCONSTRAINT Progress\nPOSTCONDITION ReportProgress\n")
    o = wv.tlc("PipelineTrace", cfg=cfg, env={"TRACE": path}, workers=1, timeout=1800, xmx="2g", dfs=True, c1=False)
    out = o["out"]
    m = re.search(r"Invariant (\w+) is violated", out)
    if m and m.group(1) == "NotAccepted":
        return {"cfg": c, "kind": "ok", "events": len(evs), "executions": x, "states": o["distinct"]}
    if m:
        return {"cfg": c, "kind": "property", "what": m.group(1), "path": path, "tail": out[-1500:]}
    mm = re.search(r'MATCHED",\s*(-?\d+),\s*(\d+)', re.sub(r"\s+", " ", out))
    if "Model checking completed" in out and mm:
        return {"cfg": c, "kind": "rejected", "matched": int(mm.group(1)), "of": int(mm.group(2)), "path": path}
    raise wv.Infra("PipelineTrace validation failed to run for %s:\n%s" % (c, out[-2000:]))


def realthread(pid, res, tier, ex):
    cfgs = RT_QUICK if tier == "quick" else RT_THOROUGH
    outs = list(ex.map(lambda c: realthread_one(pid, c), cfgs))
    n_ok = n_ev = n_st = 0
    confirmed_hang = False
    for o in outs:
        c = o["cfg"]
        if o["kind"] == "hang" and confirmed_hang:
            res.note("real-thread run %s hung as well (not re-run: a hang was already confirmed twice in this run)" % (c,))
            continue
        if o["kind"] != "ok":
            o2 = realthread_one(pid, c, attempt=1)        # report only what an immediate re-run reproduces
            if o2["kind"] == "ok":
                res.note("real-thread run %s: first attempt %s, re-run fine (not reported)" % (c, o["kind"]))
                o = o2
            else:
                o = o2
        if o["kind"] == "ok":
            n_ok += o["executions"]; n_ev += o["events"]; n_st += o["states"]
        elif o["kind"] == "hang":
            confirmed_hang = True
            if pid == "C04":
                res.violation("the pipeline did not terminate with the production primitives (T=%d %s n=%d), twice in a row" % c[:3], {"T": c[0], "dir": c[1], "n": c[2], "trace": o["path"]})
            else:
                res.note("real-thread run %s hung (reported by C04)" % (c,))
        elif o["kind"] == "crash":
            res.violation("the pipeline crashed with the production primitives (T=%d %s n=%d): %s" % (c[0], c[1], c[2], o.get("stderr", "")[-200:]), {"T": c[0], "dir": c[1], "n": c[2], "trace": o["path"]})
        elif o["kind"] == "property":
            res.violation("%s violated on a real-thread execution (production mutex/condvar, OS schedule) T=%d %s n=%d; recorded trace %s" % (o["what"], c[0], c[1], c[2], o["path"]),
                          {"T": c[0], "dir": c[1], "n": c[2], "trace": o["path"]})
        elif o["kind"] == "rejected":
            res.note("spec-drift: a real-thread execution of T=%d %s n=%d is not a behaviour of Pipeline.tla (matched %d of %d events, twice in a row; trace %s)" % (c[0], c[1], c[2], o["matched"], o["of"], o["path"]))
    res.cov["real_thread_executions_validated"] = n_ok
    res.cov["real_thread_events"] = n_ev
    res.cov["real_thread_validator_states"] = n_st


def design(pid, res, tier):
    """Model checking of Pipeline.tla itself: matrix of configurations + negative controls."""
    inv, deadlock, live = GROUPS[pid]
    allinv = "TypeOK LockDiscipline " + inv.replace("InitOK ", "")
    runs = []
    matrix = [(1, "enc", 40, 32), (1, "dec", 32, 32), (2, "enc", 70, 32), (2, "dec", 64, 32), (3, "enc", 40, 32), (3, "enc", 70, 32)]
    if tier == "thorough":
        matrix += [(1, "enc", 0, 32), (2, "enc", 64, 32), (2, "dec", 96, 32), (3, "enc", 100, 32), (3, "dec", 128, 32), (3, "enc", 160, 32), (2, "enc", 48, 16), (3, "enc", 64, 16), (3, "dec", 80, 16), (4, "enc", 70, 32)]
    for (T, d, n, S) in matrix:
        for sp in ((True,) if live else (False, True)):
            nm = "PL_%s_T%d_%s_n%d_S%d_sp%d" % (pid, T, d, n, S, sp)
            cfg = write_cfg(nm, T, n, S, d, sp, "FairSpec" if live else "Spec", allinv, ["Termination"] if live else [], live)
            if not deadlock:
                with open(os.path.join(wv.SPEC, cfg + ".cfg"), "a") as f:
                    f.write("CHECK_DEADLOCK FALSE\n")
            runs.append((cfg, True))
    # unbounded input (any number of chunks, data abstracted): control properties for every length
    if pid in ("C04", "C14"):
        for T in ((1, 2) if tier == "quick" else (1, 2, 3)):
            for sp in ((False, True) if T < 3 else (False,)):
                nm = "PLUB_%s_T%d_sp%d_p%d" % (pid, T, sp, os.getpid())
                g = os.path.join(wv.SPEC, "gen"); os.makedirs(g, exist_ok=True)
                # T = 3 has 6.3 M states since mutex releases are scheduling points: its liveness check (strong fairness of
                # four threads) ran for more than an hour; at T = 3 only safety and deadlock freedom are decided, <>Done at
                # T <= 2 and, per buffer, for every T on OneBuffer.tla
                live_here = live and T < 3
                txt = ("CONSTANTS T = %d  N = 0  S = 32  Dir = \"enc\"  EofPeek = TRUE  Pad = 0\n"
                       "  Gate = TRUE  NotifyReady = TRUE  NotifyUpdate = TRUE  WaitLoop = TRUE  ReadyTest = TRUE  Spurious = %s  Unbounded = TRUE\n"
                       "  Loads <- MCLoads  DecPad <- MCDecPad\nSPECIFICATION %s\nINVARIANTS TypeOK LockDiscipline %s\n%s" %
                       (T, "TRUE" if sp else "FALSE", "UFairSpec" if live_here else "Spec", "Quiescent" if pid == "C04" else "Exclusive NoUnderflow",
                        "PROPERTY Termination\n" if live_here else ("" if pid == "C04" else "CHECK_DEADLOCK FALSE\nPROPERTIES Refines0 RefinesLast%s\n" % (" Refines1" if T >= 3 else ""))))
                with open(os.path.join(g, nm + ".cfg"), "w") as f:
                    f.write(txt)
                runs.append((os.path.join("gen", nm), True))
        res.cov["unbounded_input_abstraction"] = "Pipeline.tla with Unbounded = TRUE (any number of chunks of 1..2 blocks, block identities / output / counters abstracted): T in {1,2} (thorough: also 3; 6 278 337 distinct states, 25.6 M transitions), with and without spurious wake-ups - %s for inputs of every length" % ("deadlock freedom, Quiescent and (T <= 2) <>Done under fairness (the input ends)" if pid == "C04" else "Exclusive, NoUnderflow and the refinement onto OneBuffer.tla")
    negs = {"C14": ["MC_Pipeline_neg_gate", "MC_Pipeline_neg_while"], "C03": ["MC_Pipeline_neg_gate2"],
            "C04": ["MC_Pipeline_neg_eof1", "MC_Pipeline_neg_notifyR", "MC_Pipeline_neg_notifyU", "MC_Pipeline_neg_readytest"]}[pid]
    for ng in negs:
        runs.append((ng, False))

    def one(r):
        big = "_T3_" in r[0] and "PLUB" in r[0]
        return wv.tlc("MC_PipelineProj" if "PLUB_C14" in r[0] else "MC_Pipeline", cfg=r[0], workers=10 if big else 2, timeout=7200 if big else 1800, xmx="12g" if big else "1g")
    with cf.ThreadPoolExecutor(7) as ex:
        outs = list(ex.map(one, runs))
    for (cfg, must), o in zip(runs, outs):
        wv.tlc_must_run(o, cfg)
        if must and not o["ok"]:
            raise wv.Infra("design model Pipeline.tla violates its own properties in %s:\n%s" % (cfg, o["out"][-2500:]))
        if not must and not o["violated"]:
            raise wv.Infra("negative control %s did not fail" % cfg)
        if must:
            res.add("states", o["distinct"]); res.add("transitions", o["states"])
    if pid == "C14":
        # every number of buffers: the one-buffer protocol satisfies the per-buffer guarantees (complete), its negative
        # controls fail, and the unbounded runs above carried the refinement mapping Pipeline -> OneBuffer (Refines*)
        for cfg, must in (("MC_OneBuffer_TRUE", True), ("MC_OneBuffer_FALSE", True), ("MC_OneBuffer_neg_gate", False), ("MC_OneBuffer_neg_while", False), ("MC_OneBuffer_neg_readytest", False)):
            o = wv.tlc("OneBuffer", cfg=cfg, workers=2, timeout=600)
            wv.tlc_must_run(o, cfg)
            if must and not o["ok"]:
                raise wv.Infra("OneBuffer.tla violates its own properties in %s:\n%s" % (cfg, o["out"][-2500:]))
            if not must and not o["violated"]:
                raise wv.Infra("negative control %s did not fail" % cfg)
            if must:
                res.add("states", o["distinct"]); res.add("transitions", o["states"])
        res.cov["every_T_argument"] = "OneBuffer.tla (one control block, its worker, the I/O thread as a visitor; 1 079 states, complete) satisfies Exclusive / NoUnderflow / LockDiscipline / Retired with and without spurious wake-ups; MC_PipelineProj maps Pipeline.tla onto it per buffer, and TLC checks that refinement on the unbounded-input model for T in {1,2} (thorough: 3) and on every explored code graph (incl. the sampled T = 3,4,8,16 graphs)"
    if pid == "C04":
        # the per-buffer half of termination for every T: at one buffer every visit of the I/O thread ends, a loaded buffer
        # is handed back, a retired buffer's worker finishes (strong fairness of the two threads while they are there)
        for cfg, must in (("MC_OneBuffer_live_TRUE", True), ("MC_OneBuffer_live_FALSE", True), ("MC_OneBuffer_live_neg_notifyR", False), ("MC_OneBuffer_live_neg_notifyU", False)):
            o = wv.tlc("OneBuffer", cfg=cfg, workers=2, timeout=600)
            wv.tlc_must_run(o, cfg)
            if must and not o["ok"]:
                raise wv.Infra("OneBuffer.tla violates its liveness properties in %s:\n%s" % (cfg, o["out"][-2500:]))
            if not must and not o["violated"]:
                raise wv.Infra("negative control %s did not fail" % cfg)
            if must:
                res.add("states", o["distinct"]); res.add("transitions", o["states"])
        res.cov["every_T_argument"] = "OneBuffer.tla under strong fairness of the worker and of the visiting I/O thread: VisitEnds (the I/O thread is never stuck at a buffer), WorkerHandsBack, WorkerEnds - the per-buffer half of <>Done for every T (the other half, a bound on the number of visits, is argued in DESIGN 10.2); negative controls without notify_all fail"
        wv.proofs(res, "ChunkingProofs")       # no load sequence ends in a final buffer without a block (any length, any chunk size)
    res.cov["design_configurations"] = len([r for r in runs if r[1]])
    res.cov["negative_controls_failed_as_expected"] = negs


def run(pid, tier, replay):
    res = wv.Result(pid, "model_checking", tier)
    if replay:
        rp = json.load(open(replay))["replay"]
        exe = sched_exe(rp.get("blocks", 2))
        r = wv.run_harness(exe, ["replay", rp["T"], rp["dir"], rp["n"], rp["spurious"], ",".join(str(x) for x in rp["schedule"])], timeout=120, env={"WV_DEC_PAD": str(rp.get("pad", 5))})
        print(r.stderr.decode(errors="replace")[-6000:])
        print(r.stdout.decode(errors="replace")[-3000:])
        return 0
    hooks_present()
    cfgs = QUICK if tier == "quick" else THOROUGH
    pcts = PCT_QUICK if tier == "quick" else PCT_THOROUGH
    for b in sorted(set(c[4] for c in cfgs)):
        sched_exe(b)
    t0 = time.time()
    with cf.ThreadPoolExecutor(12) as ex:
        fdesign = ex.submit(design, pid, res, tier)
        graphs = list(ex.map(explore, cfgs))
        pgraphs = list(ex.map(pct, pcts))
        jobs = []
        for c, (np_, summ) in zip(cfgs, graphs):
            if summ.get("e") == "stuck":
                continue
            jobs.append((c, np_, False, ex.submit(check_graph, pid, c, np_)))
        for c, (np_, summ) in zip(pcts, pgraphs):
            if summ.get("e") == "stuck":
                continue
            cc = (c[0], c[1], c[2], 0, 2)
            jobs.append((cc, np_, True, ex.submit(check_graph, pid, cc, np_, True)))
        drifts = []
        if pid == "C03":
            for c, (np_, summ) in zip(cfgs, graphs):
                if summ.get("e") != "stuck":
                    drifts.append((c, ex.submit(drift_check, c, np_)))
        projs = []
        if pid == "C14":
            for c, (np_, summ) in zip(cfgs, graphs):
                if summ.get("e") != "stuck":
                    projs.append((cfgname(c), ex.submit(proj_check, c, np_)))
            for c, (np_, summ) in zip(pcts, pgraphs):
                if summ.get("e") != "stuck":
                    cc = (c[0], c[1], c[2], 0, 2)
                    projs.append((cfgname(cc) + " (sampled)", ex.submit(proj_check, cc, np_, "_pct")))
        realthread(pid, res, tier, ex)
        fdesign.result()
        code_states = code_edges = runs = 0
        for c, (np_, summ) in list(zip(cfgs, graphs)) + [((p[0], p[1], p[2], 0, 2), g) for p, g in zip(pcts, pgraphs)]:
            if summ.get("e") == "stuck":
                rp = {"T": c[0], "dir": c[1], "n": c[2], "spurious": c[3], "blocks": c[4], "schedule": [int(x) for x in summ.get("schedule", "").split(",") if x and x != "-1"]}
                if summ.get("why") == "crash":
                    res.violation("the real pipeline code crashed (signal %s) under a schedule of T=%s %s n=%s: %s" % (summ.get("signal"), c[0], c[1], c[2], rp["schedule"][:120]), rp)
                elif pid == "C04":
                    res.violation("endless loop: a thread of the real code ran for 10 s without reaching a scheduling point (T=%s %s n=%s)" % (c[0], c[1], c[2]), rp)
                else:
                    res.note("exploration of %s ended in an endless loop (reported by C04)" % cfgname(c))
                continue
            code_states += summ["states"]; code_edges += summ["edges"]; runs += summ.get("runs", 0)
            if summ.get("truncated"):
                res.note("exploration of %s truncated at %d states" % (cfgname(c), summ["states"]))
        for c, np_, sampled, fut in jobs:
            r = fut.result()
            if r["ok"]:
                continue
            res.violation("%s on the code graph of T=%d %s n=%d spurious=%d chunk=%d blocks%s; schedule (thread ids, 0 = I/O thread): %s" %
                          (r["what"], c[0], c[1], c[2], c[3], c[4], " (sampled schedules)" if sampled else "", r["schedule"][:200]),
                          {"T": c[0], "dir": c[1], "n": c[2], "spurious": c[3], "blocks": c[4], "pad": padof(c), "schedule": r["schedule"], "last_state": r["last_state"], "violated": r["what"]})
        for c, fut in drifts:
            o = fut.result()
            if not o["ok"]:
                res.note("spec-drift: a step of the real code in %s is not a step of Pipeline.tla (implementation differs from the implementation-level model; property-level checks still decide)" % cfgname(c))
        res.cov["refinement_StepOK_checked_on"] = [cfgname(c) for c, _ in drifts]
        for nm, fut in projs:
            o = fut.result()
            if not o["ok"]:
                res.note("spec-drift: the projection of the real code's behaviour onto one buffer in %s is not a behaviour of OneBuffer.tla (the every-T argument does not transfer to this code as it stands; the property-level checks on the explored graphs still decide)" % nm)
        if projs:
            res.cov["per_buffer_projection_onto_OneBuffer_checked_on"] = [nm for nm, _ in projs]
    if pid == "C03":
        # the stream objects are handed to the workers by runcrypt, outside the scheduler harness: multi-chunk
        # encryptions with real threads, each repeated, must be byte-identical to each other and to FileFormat
        from props import c01
        exe = c01.e2e_exe(2)
        ejobs = [(exe, ["rt", T, 70, 134, 16, "all", "twice"]) for T in (2, 3, 4)]
        with cf.ThreadPoolExecutor(4) as ex2:
            parts = list(ex2.map(lambda j: wv.record(res, pid + "/e2e%d" % j[0], [j[1]]), enumerate(ejobs)))
        evs = []
        for part in parts:
            for e in part:
                e["id"] = len(evs); evs.append(e)
        ebad, est = wv.validate_trace("WencryTrace", evs, name=pid + "/tlce2e", env={"FULL": "1"})
        for e, why in ebad:
            res.violation("multi-chunk encryption with real threads (T=%s n=%s cmode %s): %s" % (e.get("T"), e.get("n"), e.get("cm"), why[:250]), {"events": [e]})
        res.cov["end_to_end_multichunk_files_recomputed"] = len(evs)
    e2e_n = 0
    if pid == "C04":
        # termination of the whole operations (runcrypt level, real threads): the scheduler harness drives
        # run_multicry directly, so the way runcrypt sets the pipeline up is covered here
        from props import c01
        exe = c01.e2e_exe(2)
        ejobs = [(exe, ["rt", T, 0, 4 * 32 + 17, 1 if tier == "thorough" or T != 16 else 5, "rot"]) for T in ((1, 2, 3, 4, 16) if tier == "thorough" else (1, 2, 4, 16))]
        with cf.ThreadPoolExecutor(6) as ex2:
            parts = list(ex2.map(lambda j: wv.record(res, pid + "/e2e%d" % j[0], [j[1]]), enumerate(ejobs)))
        for part in parts:
            for e in part:
                e2e_n += 1
                if e["e"] == "abort":
                    res.violation("%s: encrypt/verify/decrypt of a %d-byte input with T=%d (chunk %d bytes, cmode %d, hmode %d) did not return normally (%s)" %
                                  ("non-termination" if e["how"] == "timeout" else "abnormal termination", e["n"], e["T"], e["S"], e["cm"], e["hm"], e["how"]), {"events": [e]})
        res.cov["end_to_end_operations_checked_for_termination"] = e2e_n
    res.cov.update({"traces_validated_against_impl": len(jobs), "code_graph_states": code_states, "code_graph_edges": code_edges,
                    "code_reexecutions": runs,
                    "samples": [{"configuration": cfgname(c), "explorer": {k: v for k, v in summ.items() if k != "e"}} for c, (np_, summ) in list(zip(cfgs, graphs))[:5]],
                    "rule": "exhaustive: every schedule of the real run_multicry (real OS threads, one at a time; scheduling points = lock acquisition, condition wait/wake incl. optional spurious wake-ups, thread start/exit/join, every WV_POINT) for the listed (T, direction, input length, spurious, chunk size) configurations, stateful DFS by re-execution; the resulting state graph is loaded into TLC as the behaviour spec CodeGraph.tla and TLC evaluates the property formulas in every code state / on every edge (and <>Done under strong fairness for C04). T in {4,8,16}: PCT-style random-priority schedules, the sampled subgraph checked the same way. Real threads: executions with the production std::mutex/condition_variable/thread under OS schedules with random yields are recorded at the WV_POINTs and TLC (PipelineTrace.tla, silent lock/wait steps inferred, depth-first) decides that Pipeline.tla explains each one and that the property formulas hold along it. Design level: Pipeline.tla model-checked for a matrix of configurations incl. spurious wake-ups, with negative controls.",
                    "exhaustive": True})
    for f in os.listdir(os.path.join(wv.SPEC, "gen")):
        if f.endswith("_p%d.cfg" % os.getpid()):
            os.remove(os.path.join(wv.SPEC, "gen", f))
    res.assumptions += ["sequential consistency at the scheduling points (compiler/hardware reordering of the plain accesses between them is not modelled)",
                        "the projection pi (harness/h_sched.cpp wv_probe) reads the real private state through the guarded friend hook",
                        "T <= 3 exhaustive, T in {4,8,16} sampled"]
    return res.finish()
