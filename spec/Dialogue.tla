------------------------------- MODULE Dialogue -------------------------------
(***************************************************************************)
(* The prompt dialogue of DialogueCore.tla as a behaviour specification:   *)
(* one step per line the user types.  TLC checks the invariants below and  *)
(* termination over every run with at most MaxRetry wrong answers per      *)
(* prompt.                                                                 *)
(***************************************************************************)
EXTENDS DialogueCore
\* ---- the same machine as a behaviour specification ----------------------------------------
VARIABLE st
Init == st = S0
Next == \E a \in Answers(st) : st' = Step(st, a)
Spec == Init /\ [][Next]_st
FairSpec == Spec /\ WF_st(Next)

TypeOK == /\ st.pc \in {"mode", "file", "newkey", "key", "cmode", "hmode", "seed", "newname", "name", "done"}
          /\ st.retry \in 0..MaxRetry
\* an operation is only handed over with everything it needs
Complete == st.pc = "done" =>
              /\ st.file \in {"fPlain", "fEnc"}
              /\ (Op(st.mode) \in {"e", "d", "v"} => st.key # "none")
              /\ (Op(st.mode) = "e" /\ st.ct # 0 => st.script[Len(st.script)] = "seed")
\* every prompt is answered by exactly one line: the script and the questions asked have the same length
OneLinePerQuestion ==
  Len(st.script) + (IF st.pc = "done" THEN 0 ELSE 1)
    = Cardinality({i \in 1..Len(st.prompts) : st.prompts[i] \in {"mode?", "file?", "notfound", "newkey?", "key?", "keyagain", "cmode?", "hmode?", "modeagain", "seed?", "newname?", "entername"}})
\* the dialogue always ends (no answer class can keep it going for ever once retries are bounded)
Terminates == <>(st.pc = "done")
=============================================================================
